import JT.Basic.Bytes
import JT.Model.Frame
import JT.Model.Rtp
import JT.Model.Miss
import JT.Model.Parse
import JT.Model.Location
import JT.Model.Reply
import JT.Model.Layout
import JT.Model.Codec
import JT.Model.Act
import JT.Model.Registry
import JT.Model.Attach
import JT.Model.Path
import JT.Gen.SaveGuard
import JT.Model.Term
import JT.Gen.TermDefaults
import JT.Model.AttStream
import JT.Model.Codec2
import JT.Model.Codec3
import JT.Model.Params
import JT.Model.Codec4
/-!
Line-protocol driver: one operation per input line, one result line per operation.
`<idx> <op> <args…>` ↦ `<idx> <result>`.
-/
open JT

def showMsg (m : Frame.Msg) : String :=
  let h := m.h
  s!"ok id={h.id} ver={h.version} frag={h.frag} enc={h.encrypt} len={h.bodyLen} pv={h.version + 2} phone={bcd2dec h.bcd} serial={h.serial} sum={h.sum} no={h.no} body={hexOrDash m.body} verify={m.verify.toNat}"

def showPkt (p : Rtp.Pkt) : String :=
  s!"v={p.v} p={p.p} x={p.x} cc={p.cc} m={p.m} pt={p.pt} seq={p.seq} sim={bcd2dec p.sim} ch={p.ch} dt={p.dt} sub={p.sub} ts={p.ts} lifi={p.lifi} lfi={p.lfi} len={p.body.length} body={hexOrDash p.body}"

def runRtp (bs : Bytes) : String :=
  match Rtp.decode bs with
  | .ok (p, rest) => s!"ok {showPkt p} rest={hexOrDash rest}"
  | .short => "short"
  | .unq => "unq"

/-- iterate like the harness does; the step that fails reports its class and what is left -/
partial def rtpAllLoop (cur : Bytes) (acc : List String) : String :=
  match Rtp.decode cur with
  | .ok (p, rest) => rtpAllLoop rest (s!"{p.seq}/{p.dt}/{p.body.length}/{p.ts}" :: acc)
  | .short => s!"n={acc.length} {";".intercalate acc.reverse} end=short left={hexOrDash cur}"
  | .unq => s!"n={acc.length} {";".intercalate acc.reverse} end=unq left={hexOrDash cur}"

/-- like `rtpAllLoop` with every optional field shown; the harness decodes with ONE reused Packet object, the model
is a function of the bytes alone (so any state kept between calls shows as a divergence) -/
partial def rtpSeqLoop (cur : Bytes) (acc : List String) : String :=
  match Rtp.decode cur with
  | .ok (p, rest) => rtpSeqLoop rest (s!"{p.seq}/{p.dt}/{p.sub}/{p.body.length}/{p.ts}/{p.lifi}/{p.lfi}" :: acc)
  | .short => s!"n={acc.length} {";".intercalate acc.reverse} end=short"
  | .unq => s!"n={acc.length} {";".intercalate acc.reverse} end=unq"

def parseSegs (s : String) : Option (List Miss.Seg) :=
  if s = "-" then some [] else
  (s.splitOn ",").mapM fun p =>
    match p.splitOn ":" with
    | [a, b] => do pure ⟨← a.toNat?, ← b.toNat?⟩
    | _ => none

def showSegs (l : List Miss.Seg) : String :=
  if l.isEmpty then "-" else ",".intercalate (l.map fun s => s!"{s.off}:{s.len}")

/-- body of the 0x9212 reply built by `T0x1212.ReplyBody` from the computed list -/
def report9212 (name : Bytes) (ftype : Nat) (l : List Miss.Seg) : Bytes :=
  [UInt8.ofNat name.length] ++ name ++ [UInt8.ofNat ftype, (if l.isEmpty then 0 else 1), UInt8.ofNat l.length]
    ++ l.flatMap (fun s => toBE 4 s.off ++ toBE 4 s.len)

def showPMsg (m : Parse.PMsg) : String :=
  s!"{m.h.id}.{m.h.serial}.{m.h.sum}.{m.h.no}.{if m.complete then 1 else 0}.{hexOrDash m.body}.{hexOrDash m.raw}"

def parseSession (s : String) : Option (List (Nat × Bytes)) :=
  (s.splitOn ",").mapM fun p =>
    match p.splitOn ":" with
    | [a, b] => do pure (← a.toNat?, ← ofHex b)
    | _ => none

def insertSorted (x : String) : List String → List String
  | [] => [x]
  | y :: r => if x ≤ y then x :: y :: r else y :: insertSorted x r

def sortStrs (l : List String) : List String := l.foldr insertSorted []

/-- run a parser session like the harness does: stop after the first error -/
def runSession : Nat → Parse.PState → List (Nat × Bytes) → List String → String
  | _, st, [], acc => s!"{"#".intercalate acc.reverse} h={st.hist.length} t={st.recs.length}"
  | now, st, (dt, data) :: r, acc =>
    let now' := now + dt
    let (st', msgs, reqs, err, pn) := Parse.parse now' st data
    if pn then "panic" else
    let s := "[" ++ ";".intercalate (msgs.map showPMsg) ++ "|" ++ ";".intercalate (sortStrs (reqs.map showPMsg)) ++ "]"
    if err then s!"{"#".intercalate ((s ++ "!E") :: acc).reverse} h={st'.hist.length} t={st'.recs.length}"
    else runSession now' st' r (s :: acc)

/-- C14 over a live connection: total number of re-requests the parser hands to the writer during a session -/
def countRereq : Nat → Parse.PState → List (Nat × Bytes) → Nat → String
  | _, _, [], n => s!"rereq={n}"
  | now, st, (dt, data) :: r, n =>
    let now' := now + dt
    let (st', _, reqs, err, pn) := Parse.parse now' st data
    if pn then "panic" else if err then s!"rereq={n + reqs.length}" else countRereq now' st' r (n + reqs.length)

def showLoc (l : Loc.Loc) : String :=
  let a := sortStrs (Loc.flagsOf 32 Gen.alarmBits l.alarm)
  let st := sortStrs (Loc.flagsOf 32 Gen.statusBits l.status)
  s!"L({l.alarm},{l.status},{l.lat},{l.lon},{l.alt},{l.speed},{l.dir},{(Loc.bcd2time l.time).replace " " "_"},a=[{",".intercalate a}],s=[{",".intercalate st}],cargo={Loc.cargoOf l.status})"

def showItem (it : Loc.Item) : String :=
  let vals := ",".intercalate (it.vals.map fun p => s!"{p.1}={p.2}")
  s!"{it.id}:{it.len}:{hexOrDash it.data}:{vals}:{",".intercalate (sortStrs it.flags)}"

def showAdds (items : List Loc.Item) : String := "A[" ++ ";".intercalate (items.map showItem) ++ "]"

def run0200 (b : Bytes) : Res String :=
  match Loc.parse0200 b with
  | .ok (l, items) => .ok (showLoc l ++ showAdds items)
  | .err => .err
  | .panic => .panic

/-- `T0x0704.Parse` -/
def run0704Items : Nat → Nat → Bytes → List String → Res (List String)
  | 0, _, _, acc => .ok acc.reverse
  | n + 1, fuel, rest, acc =>
    if rest.length < 2 then .err   -- (after the D4 repair; the unguarded slice used to panic here)
    else
      let l := be16 (rest.getD 0 0) (rest.getD 1 0)
      if rest.length < 2 + l then .err else
      match run0200 ((rest.drop 2).take l) with
      | .ok s => run0704Items n fuel (rest.drop (2 + l)) (s :: acc)
      | .err => .err
      | .panic => .panic

def run0704 (b : Bytes) : Res String :=
  if b.length < 3 then .err else
  let n := be16 (b.getD 0 0) (b.getD 1 0)
  match run0704Items n 0 (b.drop 3) [] with
  | .ok parts => .ok s!"n={n},t={(b.getD 2 0).toNat},{"|".intercalate parts}"
  | .err => .err
  | .panic => .panic

def run0801 (b : Bytes) : Res String :=
  if b.length < 36 then .err else
  match Loc.parseLoc ((b.drop 8).take 28) with
  | .ok l => .ok s!"id={Loc.be32At b 0},{(b.getD 4 0).toNat},{(b.getD 5 0).toNat},{(b.getD 6 0).toNat},{(b.getD 7 0).toNat},{showLoc l},pkg={hexOrDash (b.drop 36)}"
  | _ => .err

def showRes (r : Res String) : String :=
  match r with
  | .ok s => "ok " ++ s
  | .err => "err"
  | .panic => "panic"

/-- a conversation on one connection: reads are parsed, every delivered message goes to the writer in order -/
def runConv : Nat → Parse.PState → Reply.Conn → List (Nat × Bytes) → List String → String
  | _, _, c, [], acc => s!"[{",".intercalate acc.reverse}] next={c.serial}"
  | now, st, c, (dt, data) :: r, acc =>
    let now' := now + dt
    let (st', msgs, _, err, pn) := Parse.parse now' st data
    if pn then "panic" else
    if err then s!"[{",".intercalate acc.reverse}] closed"
    else
      let (c', frames) := Reply.writtenFrames Gen.replyTable c msgs
      runConv now' st' c' r ((frames.map toHex).reverse ++ acc)

def stabRun : Nat → Parse.PState → List (Nat × Bytes) → Nat → String
  | _, _, [], n => s!"ok n={n} alias=0 changed=0"
  | now, st, (dt, data) :: r, n =>
    let (st', msgs, reqs, err, pn) := Parse.parse (now + dt) st data
    if pn then "panic" else
    if err then s!"ok n={n + msgs.length + reqs.length} alias=0 changed=0"
    else stabRun (now + dt) st' r (n + msgs.length + reqs.length)

/-- all nibbles are decimal digits (BCD) -/
def isBcd (b : Bytes) : Bool := b.all fun x => x.toNat / 16 < 10 && x.toNat % 16 < 10

/-- parse-then-encode of a body, for the types that have a Lean model; `none` = not modelled -/
def rtModel (ty : String) (b : Bytes) : Option (Res Bytes) :=
  match Layout.lookup ty with
  | some (n, pf, _, true) =>
    -- time fields are strings in Go: `Time2BCD (BCD2Time x) = x` only for BCD digits; other inputs are not modelled
    let timeOk := pf.all fun f => !(f.2.2.endsWith "Time") || isBcd ((b.drop f.1).take (f.2.1 - f.1))
    if b.length = n && !timeOk then none
    else match Layout.parseL n pf b with
      | .ok v => some (.ok (Layout.encodeL v))
      | .err => some .err
      | .panic => some .panic
  | some (_, _, _, false) => none
  | none =>
    match ty with
    | "P0x8003" => some (match Codec.parse8003 b with | .ok v => .ok (Codec.encode8003 v) | .err => .err | .panic => .panic)
    | "P0x8800" => some (match Codec.parse8800 b with | .ok v => .ok (Codec.encode8800 v) | .err => .err | .panic => .panic)
    | "T0x0805" => some (match Codec.parse0805 b with | .ok v => .ok (Codec.encode0805 v) | .err => .err | .panic => .panic)
    | "P0x9212" => some (match Codec.parse9212 b with | .ok v => .ok (Codec.encode9212 v) | .err => .err | .panic => .panic)
    | _ => none

/-- parse-then-encode through the value-level models of `JT/Model/Codec3.lean` (round-trip theorems in `JT/Proof/Codec3.lean`) -/
def rtModel3 (ty : String) (b : Bytes) : Option (Res Bytes) :=
  match ty with
  | "P0x8100" => some ((Codec3.parseP0x8100 b).bind fun v => .ok (Codec3.encodeP0x8100 v))
  | "P0x9101" => some ((Codec3.parseP0x9101 b).bind fun v => .ok (Codec3.encodeP0x9101 v))
  | "P0x9201" => some ((Codec3.parseP0x9201 b).bind fun v => .ok (Codec3.encodeP0x9201 v))
  | "P0x9206" => some ((Codec3.parseP0x9206 b).bind fun v => .ok (Codec3.encodeP0x9206 v))
  | "T0x1205" => some ((Codec3.parseT0x1205 b).bind fun v => .ok (Codec3.encodeT0x1205 v))
  | "P0x9102" => some ((Codec3.parseP0x9102 b).bind fun v => .ok (Codec3.encodeP0x9102 v))
  | "P0x9207" => some ((Codec3.parseP0x9207 b).bind fun v => .ok (Codec3.encodeP0x9207 v))
  | "P0x8103" => some ((Params.parse8103 b).bind fun v => .ok (Params.encode8103 v))
  | _ => none

/-- outcome class of decoding (C03) for the decoders that have a Lean model -/
def resClass {α} : Res α → String
  | .ok _ => "ok" | .err => "err" | .panic => "panic"

/-- the dialect named at the end of a context like `v2013/HLJ` -/
def dialectOfCtx (ctx : String) : AttStream.Dialect :=
  AttStream.dialectOf (match (ctx.splitOn "/").getLast? with
    | some "JS" => 1 | some "HLJ" => 2 | some "GD" => 3 | some "HN" => 4 | some "SC" => 5 | _ => 1)

def versionOfCtx (ctx : String) : Nat :=
  match (ctx.splitOn "/").head? with
  | some "v2011" => 1 | some "v2019" => 3 | _ => 2

/-- outcome-class models of `JT/Model/Codec2.lean` (checked accesses; no-panic theorems in `JT/Proof/Codec2.lean`) -/
def totModel2 (ty ctx : String) (b : Bytes) : Option String :=
  match ty with
  | "T0x0002" => some (resClass (Codec2.parseT0x0002 b))
  | "P0x8104" => some (resClass (Codec2.parseP0x8104 b))
  | "P0x9003" => some (resClass (Codec2.parseP0x9003 b))
  | "T0x0102" => some (resClass (Codec2.parseT0x0102 (versionOfCtx ctx) b))
  | "T0x0100" => some (resClass (Codec2.parseT0x0100 (versionOfCtx ctx) b))
  | "P0x8100" => some (resClass (Codec2.parseP0x8100 b))
  | "P0x9101" => some (resClass (Codec2.parseP0x9101 b))
  | "P0x9201" => some (resClass (Codec2.parseP0x9201 b))
  | "P0x9206" => some (resClass (Codec2.parseP0x9206 b))
  | "T0x1205" => some (resClass (Codec2.parseT0x1205 b))
  | "P0x9205" => some (resClass (Codec2.parseP0x9205 b))
  | "P0x9202" => some (resClass (Codec2.parseP0x9202 b))
  | "P0x8801" => some (resClass (Codec2.parseP0x8801 b))
  | "T0x1005" => some (resClass (Codec2.parseT0x1005 b))
  | "P0x9208" => some (resClass (Codec2.parseP0x9208 (dialectOfCtx ctx) b))
  | "P0x8103" => some (resClass (Params.parse8103 b))
  | "T0x0104" => some (resClass (Params.parse0104 b))
  | "T0x0200AdditionExtension0x64" => some (resClass (Codec4.parseExt64 (dialectOfCtx ctx) b))
  | "T0x0200AdditionExtension0x65" => some (resClass (Codec4.parseExt65 (dialectOfCtx ctx) b))
  | "T0x0200AdditionExtension0x66" => some (resClass (Codec4.parseExt66 (dialectOfCtx ctx) b))
  | "T0x0200AdditionExtension0x67" => some (resClass (Codec4.parseExt67 (dialectOfCtx ctx) b))
  | "T0x0200AdditionExtension0x70" => some (resClass (Codec4.parseExt70 (dialectOfCtx ctx) b))
  | _ => none

def totModel (ty : String) (ctx : String) (b : Bytes) : Option String :=
  if ty == "T0x1210" then some (resClass (AttStream.parse1210 (dialectOfCtx ctx) b))
  else if ty == "T0x1211" || ty == "T0x1212" then some (resClass (AttStream.parse1211 b))
  else
  match rtModel ty b with
  | some (.ok _) => some "ok"
  | some .err => some "err"
  | some .panic => some "panic"
  | none =>
    match ty with
    | "jt808.JTMessage" => some (match Frame.decode b with | .ok _ => "ok" | .err => "err" | .panic => "panic")
    | "jt1078.Packet" => some (match Rtp.decode b with | .ok _ => "ok" | _ => "err")
    | "T0x0200" => some (match Loc.parse0200 b with | .ok _ => "ok" | .err => "err" | .panic => "panic")
    | "T0x0704" => some (match run0704 b with | .ok _ => "ok" | .err => "err" | .panic => "panic")
    | "T0x0801" => some (match run0801 b with | .ok _ => "ok" | .err => "err" | .panic => "panic")
    | _ => totModel2 ty ctx b

/-! ### scripted platform-command scenarios over the transition system `JT.Act` -/
namespace ActSim
open JT.Act

/-- the requests made so far -/
def reqs (s : St) : List Nat := List.range s.created

/-- one internal step in a fixed priority order (the scripted scenarios await every action, so the outcome does
not depend on the order); `none` when the server has nothing to do. Timers are driven by the script (`T`). -/
def stepInt (s : St) : Option St :=
  if s.leaveQueued then some { s with leaveQueued := false, registered := false, stopClosed := true }
  else if s.writerAlive && s.stopClosed then
    some { s with writerAlive := false,
                  place := fun r => match s.place r with | .act => .done .closed | .recorded _ => .done .closed | p => p }
  else match (reqs s).find? (fun r => s.place r = .ops) with
    | some r =>
      if s.registered then
        if actCount s < 3 then some { s with place := upd s.place r .act } else none
      else some { s with place := upd s.place r (.done .notExist) }
    | none =>
      match (reqs s).find? (fun r => s.place r = .act) with
      | some r =>
        if s.writerAlive then
          some { s with place := upd s.place r (.recorded s.serial), stamp := upd s.stamp r (some s.serial),
                        serial := s.serial + 1, timers := s.serial :: s.timers }
        else none
      | none =>
        match s.doneCh with
        | t :: rest =>
          if s.writerAlive then
            match (reqs s).find? (fun r => s.place r = .recorded t) with
            | some r => some { s with doneCh := rest, place := upd s.place r (.done .timeout) }
            | none => some { s with doneCh := rest }
          else none
        | [] => none

def runInt : Nat → St → St
  | 0, s => s
  | fuel + 1, s => match stepInt s with | some t => runInt fuel t | none => s

def settle (s : St) : St := runInt 200 s

structure Sim where
  st : St
  /-- tag ↦ (request, time-out kind: 0 long (8 s), 1 short (150 ms, fires at `T`), 2 library default (3 s, requested as
  0; fires at `U`)) -/
  calls : List (String × Nat × Nat)
  connected : Bool

def Sim.init : Sim := ⟨{ JT.Act.init with registered := false, writerAlive := false, stopClosed := true, leaving := true }, [], false⟩

/-- a terminal connects and joins: a fresh connection object (serial 0, live writer, registered key) -/
def connect (m : Sim) : Sim :=
  { m with connected := true,
           st := { m.st with registered := true, stopClosed := false, writerAlive := true, leaving := false,
                             leaveQueued := false, serial := 0, timers := [], doneCh := [] } }

def disconnect (m : Sim) : Sim :=
  if m.connected then
    { m with connected := false, st := settle { m.st with leaving := true, leaveQueued := true } }
  else m

/-- `n` commands with a long time-out issued back to back (tags y<burst><i>) -/
def burst (m : Sim) (k n : Nat) (short : Nat := 0) : Sim :=
  (List.range n).foldl (fun (m : Sim) i =>
    let r := m.st.created
    { m with calls := m.calls ++ [(s!"y{k}{i + 1}", r, short)],
             st := settle { m.st with created := r + 1, place := upd m.st.place r .ops } }) m

/-- the terminal answers the command `tag` (general or dedicated response echoing its serial) -/
def respond (m : Sim) (tag : String) : Sim :=
  match m.calls.find? (fun c => c.1 = tag) with
  | some c =>
    if m.connected && m.st.writerAlive then
      match m.st.place c.2.1 with
      | .recorded e => { m with st := settle { m.st with place := upd m.st.place c.2.1 (.done (.response e)) } }
      | _ => m
    else m
  | none => m

def stepTok (m : Sim) (tok : String) : Sim :=
  if tok = "J" || tok = "J0" then connect m
  else if tok.startsWith "B" || tok.startsWith "b" || tok.startsWith "s" then
    match ((tok.drop 1).toString).toNat? with
    | some n =>
      let k := (m.calls.filter (fun c => c.1.startsWith "y" && c.1.endsWith "1")).length + 1
      burst m k n (if tok.startsWith "s" then 1 else 0)   -- `s<n>`: the same with the short (150 ms) time-out
    | none => m
  else if tok = "X" then disconnect m
  else if tok = "T" || tok = "U" then
    -- every short-timeout command still recorded times out (`U`: 3.3 s pass, the library's default time-out fires too)
    let fire := m.calls.filterMap fun c =>
      if c.2.2 = 1 || (c.2.2 = 2 && tok = "U") then match m.st.place c.2.1 with | .recorded t => some t | _ => none else none
    { m with st := settle { m.st with timers := m.st.timers.filter (fun t => !fire.contains t), doneCh := m.st.doneCh ++ fire } }
  else if tok.startsWith "C" then
    let tag := ((tok.drop 1).dropRight 1).toString
    let short : Nat := if tok.endsWith "S" then 1 else if tok.endsWith "Z" then 2 else 0
    let r := m.st.created
    { m with calls := m.calls ++ [(tag, r, short)],
             st := settle { m.st with created := r + 1, place := upd m.st.place r .ops } }
  else if tok.startsWith "R" then respond m (tok.drop 1).toString
  else if tok.startsWith "Q:" then   -- several responses sent back to back, one write each, none awaited before the next
    ((tok.drop 2).toString.splitOn ":").foldl respond m
  else m   -- H, W and V: ordinary traffic / a (general or dedicated) response nobody waits for: no effect on the commands

def showResult (s : St) (r : Nat) : String :=
  match s.place r with
  | .done (.response _) => "resp"
  | .done .timeout => "timeout"
  | .done .writeFail => "fail"
  | .done .closed => "fail"
  | .done .notExist => "noexist"
  | _ => "pending"

def run (script : String) : String :=
  let toks := script.splitOn ","
  let m := disconnect (toks.foldl stepTok Sim.init)
  let sorted := sortStrs (m.calls.map fun c => s!"{c.1}={showResult m.st c.2.1}")
  let hb := (toks.filter (· = "H")).length
  -- heartbeats are only sent (and answered) while a terminal is connected
  let hbLive := (toks.foldl (fun (acc : Nat × Bool) t =>
      if t = "J" || t = "J0" then (acc.1, true) else if t = "X" then (acc.1, false)
      else if t = "H" && acc.2 then (acc.1 + 1, acc.2) else acc) (0, false)).1
  let _ := hb
  -- awaited bursts (`B<n>`): every command for an online terminal reaches it
  let bw : Nat := (toks.filterMap fun t => if t.startsWith "B" then ((t.drop 1).toString).toNat? else none).foldl (· + ·) 0
  let bs := if bw > 0 then s!" burst={bw}/{bw}" else ""
  s!"{" ".intercalate sorted} hb={hbLive}/{hbLive}{bs}"
end ActSim

/-! ### registry scenarios over `JT.Reg` -/
namespace RegSim
open JT.Reg

def keyNum (k : String) : Nat := (k.toList.headD 'a').toNat

def stepTok (acc : St × List String) (tok : String) : St × List String :=
  let (s, out) := acc
  if tok.startsWith "J" then
    match ((tok.drop 1).toString).splitOn ":" with
    | [i, k] =>
      match i.toNat? with
      | some c =>
        let (s1, o) := step s (.join c (keyNum k))
        match o with
        | .joined _ _ => (s1, out ++ ["joined"])
        | .refusedOut _ _ => ((step s1 (.leave c)).1, out ++ ["refused"])   -- the server closes a refused connection
        | _ => (s1, out ++ ["silent"])
      | none => (s, out ++ ["bad"])
    | _ => (s, out ++ ["bad"])
  else if tok.startsWith "X" then
    match ((tok.drop 1).toString).toNat? with
    | some c => ((step s (.leave c)).1, out ++ ["left"])
    | none => (s, out ++ ["bad"])
  else if tok.startsWith "S" then
    match (step s (.route (keyNum (tok.drop 1).toString))).2 with
    | .routed _ c => (s, out ++ [s!"to{c}"])
    | _ => (s, out ++ ["noexist"])
  else (s, out ++ ["bad"])

def run (script : String) : String :=
  let (_, out) := (script.splitOn ",").foldl stepTok (JT.Reg.init, [])
  " ".intercalate out ++ " ev=ok"

/-- `n` connections present the same key at once: the manager applies their joins one after the other (in some
order — the model is symmetric in the connections), and the number accepted is what the model says -/
def raceOwners (n : Nat) : Nat :=
  ((List.range n).foldl (fun (acc : St × Nat) c =>
    let r := step acc.1 (.join c 7)
    (r.1, acc.2 + (match r.2 with | .joined _ _ => 1 | _ => 0))) (JT.Reg.init, 0)).2
end RegSim

/-! C15: an upload scenario over `JT.Attach.runS` -/
namespace AttSim
open JT JT.Attach

def parseFiles (s : String) : Option (List Bytes) :=
  (s.splitOn ";").mapM (fun p => match p.splitOn ":" with | [_, c] => ofHex c | _ => none)

def parseEv (files : Array Bytes) (tok : String) : Option Ev :=
  if tok == "A" then some .announce
  else if tok.startsWith "B" then ((tok.drop 1).toString.toNat?).map .info
  else if tok.startsWith "E" then ((tok.drop 1).toString.toNat?).map .done
  else if tok.startsWith "K" then
    match ((tok.drop 1).toString.splitOn ":").map String.toNat? with
    | [some i, some off, some ln] =>
      match files[i]? with
      | some c => some (.chunk i off ((c.drop off).take ln))
      | none => none
    | _ => none
  else none

def showReply : Reply → String
  | .ack => "8001"
  | .report [] => "9212/0"
  | .report l => "9212/1/" ++ "+".intercalate (l.map (fun g => s!"{g.off}:{g.len}"))

def run (files events : String) : String :=
  match parseFiles files with
  | none => "bad-op"
  | some fs =>
    match (events.splitOn ",").mapM (parseEv fs.toArray) with
    | none => "bad-op"
    | some evs =>
      let (st, rs) := runS (fs.map List.length) [] evs
      let fstr := (List.range fs.length).map (fun i =>
        match st[i]?, fs[i]? with
        | some r, some c =>
          if complete r then (if body r == c then s!"{i}:complete:ok" else s!"{i}:complete:bad") else s!"{i}:incomplete:-"
        | _, _ => s!"{i}:unknown:-")
      s!"replies=[{",".intercalate (rs.map showReply)}] files=[{",".intercalate fstr}]"
end AttSim

/-! C19: which announced names are stored where, by the regenerated guard and the path model -/
namespace ConfineSim
open JT JT.Path

def joinSlash (l : List Bytes) : Bytes := (l.intersperse [slash]).flatten

def run (phone files : String) : String :=
  match ofHex phone, (files.splitOn ";").mapM (fun p => match p.splitOn ":" with | [n, _] => ofHex n | _ => none) with
  | some bcd, some names =>
    -- the harness's working directory below its scratch root: w1/w2/w3/w4/cwd
    let cwd : List Bytes := [[0x77, 0x31], [0x77, 0x32], [0x77, 0x33], [0x77, 0x34], [0x63, 0x77, 0x64]]
    let ph := phoneStr bcd
    let outs := names.filterMap (fun nm =>
      if Gen.SaveGuard.skip nm then none else
      match resolve cwd (savePath ph (Gen.SaveGuard.stored nm)) with
      | none => none
      | some loc =>
        if loc <+: cwd ∨ loc = cwd ++ [ph] then none       -- an existing directory: WriteFile fails
        else if cwd <+: loc then some (toHex (joinSlash (loc.drop cwd.length)))
        else some (toHex ([0x5e, slash] ++ joinSlash loc)))
    let sorted := outs.mergeSort (fun a b => !(b < a))
    s!"stored=[{",".intercalate sorted}]"
  | _, _ => "bad-op"
end ConfineSim

/-! C20: the terminal simulator -/
namespace TermSim
open JT JT.Term

def digits (s : String) : Option (List Nat) :=
  s.toList.mapM (fun c => if c.isDigit then some (c.toNat - 48) else none)

def defaultBody (v id : Nat) : Option Bytes :=
  (Gen.termDefaults.find? (fun e => e.1 == v && e.2.1 == id)).map (·.2.2.2)

def hexNat (s : String) : Option Nat :=
  s.toList.foldlM (fun acc c =>
    if c.isDigit then some (acc * 16 + (c.toNat - 48))
    else if 'a' ≤ c ∧ c ≤ 'f' then some (acc * 16 + (c.toNat - 87))
    else none) 0

def gen (v : Nat) (ds : List Nat) (skip : Nat) (cmds : List String) : Option (List String) :=
  let rec go (t : T) : List String → Option (List String)
    | [] => some []
    | c :: r =>
      match c.splitOn ":" with
      | [id] =>
        match hexNat id with
        | none => none
        | some id =>
          match defaultBody v id with
          | none => (go t r).map ("nil" :: ·)
          | some b => let (t1, f) := create t id b; (go t1 r).map (toHex f :: ·)
      | [id, body] =>
        match hexNat id, ofHex body with
        | some id, some b => let (t1, f) := create t id b; (go t1 r).map (toHex f :: ·)
        | _, _ => none
      | _ => none
  go ⟨withHeader v ds, skip % 65536⟩ cmds

def expected (seq : Nat) (frame : Bytes) : String :=
  let (_, msgs, _, err, pn) := Parse.parse 0 Parse.PState.empty frame
  if pn then "panic" else if err then "nil" else
  match (Reply.writtenFrames Gen.replyTable ⟨seq, Reply.HState.init⟩ msgs).2 with
  | [f] => s!"ok {toHex f}"
  | _ => "none"
end TermSim

/-! C10: the attachment connection loop on a byte stream -/
namespace AttStreamSim
open JT JT.AttStream

def stageName : Stage → String
  | .init => "init" | .start => "start" | .streamData => "stream-data" | .supplementary => "supplementary"
  | .streamDataComplete => "stream-data-complete" | .complete => "complete"

def run (astype : Nat) (stream : Bytes) : String :=
  match AttStream.run (dialectOf astype) Sess.init [stream] [] with
  | .panic => "panic"
  | .err => "err"
  | .ok (evs, failed, _) =>
    let names := evs.map (fun e => stageName e.stage ++ (if e.hasCurrent then "+" else ""))
    s!"stages=[{",".intercalate names}] end={if failed then "fail" else "ok"}"

def contained (kind : String) (astype : Nat) (stream : Bytes) : String :=
  if kind == "attach" then
    match AttStream.run (dialectOf astype) Sess.init [stream] [] with
    | .panic => "not-contained:model-panic"
    | _ => "contained"
  else
    let (_, _, _, _, pn) := Parse.parse 0 Parse.PState.empty stream
    if pn then "not-contained:model-panic" else "contained"
end AttStreamSim

def runOp (op : String) (args : List String) : String :=
  match op, args with
  | "dec", [f] =>
    match ofHex f with
    | none => "bad-op"
    | some bs =>
      match Frame.decode bs with
      | .ok m => showMsg m
      | .err => "err"
      | .panic => "panic"
  | "loc", [carrier, body] =>
    match ofHex body with
    | none => "bad-op"
    | some b =>
      match carrier with
      | "0200" => showRes (run0200 b)
      | "0704" => showRes (run0704 b)
      | "0801" => showRes (run0801 b)
      | _ => "bad-op"
  | "rt", ty :: _ctx :: body :: _ =>
    match ofHex body with
    | none => "bad-op"
    | some b =>
      match rtModel ty b with
      | some (.ok e) => s!"ok {hexOrDash e}"
      | some .err => "err"
      | some .panic => "panic"
      | none =>
        match ty with
        | "jt808.JTMessage" => (match Frame.decode b with | .ok _ => "ok" | .err => "err" | .panic => "panic")
        | "jt1078.Packet" => (match Rtp.decode b with | .ok _ => "ok" | _ => "err")
        | _ =>
          match rtModel3 ty b with
          | some (.ok e) => s!"ok {hexOrDash e}"
          | some .err => "err"
          | some .panic => "panic"
          | none => "skip"
  | "tot", ty :: ctx :: body :: _ =>
    match ofHex body with
    | none => "bad-op"
    | some b => (totModel ty ctx b).getD "skip"
  | "race", [_variant, _workers, _rounds, _seed] => "races=0"   -- C18: what the field-partition and hand-over theorems predict
  | "astream", [astype, _cut, stream] =>
    match astype.toNat?, ofHex stream with
    | some a, some b => AttStreamSim.run a b
    | _, _ => "bad-op"
  | "hostile", [kind, astype, _close, _cut, stream] =>
    match astype.toNat?, ofHex stream with
    | some a, some b => AttStreamSim.contained kind a b
    | _, _ => "bad-op"
  | "tgen", [v, phone, skip, cmds] =>
    match v.toNat?, TermSim.digits phone, skip.toNat? with
    | some v, some ds, some k =>
      match TermSim.gen v ds k (cmds.splitOn ",") with
      | some fs => "ok " ++ ",".intercalate fs
      | none => "bad-op"
    | _, _, _ => "bad-op"
  | "texp", [_v, _phone, seq, frame] =>
    match seq.toNat?, ofHex frame with
    | some q, some f => TermSim.expected q f
    | _, _ => "bad-op"
  | "confine", [_astype, phone, files, _upload] => ConfineSim.run phone files
  | "att", [_astype, _cut, files, events, _alarm] => AttSim.run files events
  | "reg", [script] => RegSim.run script
  | "regblock", [_ms] => "joined=1 routed=1 after=noexist rejoin=1"   -- C11: a join that has to wait for the manager still happens exactly once (consistent_run, route_to_owner)
  | "regscale", [_n, _k] => "delivered=1 dup=refused rejoin=joined"   -- C11: route_to_owner, dup_refused_first_untouched, leave_frees_only_own_key hold for every number of sessions
  | "regrace", [n, rounds] =>
    match n.toNat?, rounds.toNat? with
    | some n, some r => s!"ok rounds={r} owners={RegSim.raceOwners n}..{RegSim.raceOwners n}"
    | _, _ => "bad-op"
  | "act", [script] => ActSim.run script
  | "actstress", [_] => "skip"
  | "stab", [sess] =>
    -- C09: number of messages delivered; after the D12 repair every delivered field is an owned copy
    match parseSession sess with
    | some cs => stabRun 0 Parse.PState.empty cs 0
    | none => "bad-op"
  | "stabsock", [_] => "ok changed=0"
  | "convrace", [sess] =>
    match parseSession sess with
    | some cs => runConv 0 Parse.PState.empty Reply.Conn.init cs []
    | none => "bad-op"
  | "convpar", [conns, rounds, _seed] =>
    -- every request is answered with the reply that ITS body determines (the handlers of a connection are its own)
    match conns.toNat?, rounds.toNat? with
    | some c, some r => s!"replies={c * r} wrong=0"
    | _, _ => "bad-op"
  | "convcut", [sess, _cut] =>
    -- the same conversation delivered in arbitrary pieces: the replies do not depend on the cuts (C04), so the model
    -- runs the whole stream as one read
    match parseSession sess with
    | some cs => runConv 0 Parse.PState.empty Reply.Conn.init [(0, (cs.map (·.2)).flatten)] []
    | none => "bad-op"
  | "conv", [sess] =>
    match parseSession sess with
    | some cs => runConv 0 Parse.PState.empty Reply.Conn.init cs []
    | none => "bad-op"
  | "rereqsock", [sess] =>
    match parseSession sess with
    | some cs => countRereq 0 Parse.PState.empty cs 0
    | none => "bad-op"
  | "rereqcmd", [sess] =>   -- the same while a platform command is outstanding: commands do not touch the transfers
    match parseSession sess with
    | some cs => countRereq 0 Parse.PState.empty cs 0
    | none => "bad-op"
  | "psess", [sess] =>
    match parseSession sess with
    | some cs => runSession 0 Parse.PState.empty cs []
    | none => "bad-op"
  | "miss", [f, c, segs] =>
    match f.toNat?, c.toNat?, parseSegs segs with
    | some f, some c, some l => let g := Miss.missSegments f c l; s!"n={g.length} {showSegs g}"
    | _, _, _ => "bad-op"
  | "rep", [f, c, segs, name, ft] =>
    match f.toNat?, c.toNat?, parseSegs segs, ofHex name, ft.toNat? with
    | some f, some c, some l, some nm, some ft => s!"ok {toHex (report9212 nm ft (Miss.missSegments f c l))}"
    | _, _, _, _, _ => "bad-op"
  | "rtp", [f] => match ofHex f with | some bs => runRtp bs | none => "bad-op"
  | "rtpv", [f, _] => match ofHex f with | some bs => runRtp bs | none => "bad-op"
  | "rtpseq", [f] => match ofHex f with | some bs => rtpSeqLoop bs [] | none => "bad-op"
  | "rtpall", [f] => match ofHex f with | some bs => rtpAllLoop bs [] | none => "bad-op"
  | "rtpallv", [f, _] => match ofHex f with | some bs => rtpAllLoop bs [] | none => "bad-op"
  | "decv", [f, _] =>
    match ofHex f with
    | none => "bad-op"
    | some bs =>
      match Frame.decode bs with
      | .ok m => showMsg m
      | .err => "err"
      | .panic => "panic"
  | "enc", [src, rid, ser, body] =>
    match ofHex src, rid.toNat?, ser.toNat?, ofHex body with
    | some s, some rid, some ser, some b =>
      match Frame.decode s with
      | .ok m => s!"ok {toHex (Frame.encode m.h rid ser b)}"
      | _ => "src-err"
    | _, _, _, _ => "bad-op"
  | _, _ => "bad-op"

partial def loop (h : IO.FS.Stream) (out : IO.FS.Stream) : IO Unit := do
  let line ← h.getLine
  if line.isEmpty then return ()
  let toks := (line.trimAscii.toString.splitOn " ").filter (· ≠ "")
  match toks with
  | idx :: op :: args => out.putStrLn s!"{idx} {runOp op args}"
  | _ => out.putStrLn "bad-line"
  loop h out

def main : IO Unit := do
  let out ← IO.getStdout
  loop (← IO.getStdin) out
