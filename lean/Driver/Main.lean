import JT.Basic.Bytes
import JT.Model.Frame
import JT.Model.Rtp
/-!
Line-protocol driver: one operation per input line, one result line per operation.
`<idx> <op> <args…>` ↦ `<idx> <result>`.
-/
open JT

def showMsg (m : Frame.Msg) : String :=
  let h := m.h
  s!"ok id={h.id} ver={h.version} frag={h.frag} enc={h.encrypt} len={h.bodyLen} pv={h.version + 2} phone={bcd2dec h.bcd} serial={h.serial} sum={h.sum} no={h.no} body={hexOrDash m.body} verify={m.verify.toNat}"

def showPkt (p : Rtp.Pkt) : String :=
  s!"v={p.v} p={p.p} x={p.x} cc={p.cc} m={p.m} pt={p.pt} seq={p.seq} sim={bcd2dec p.sim} ch={p.ch} dt={p.dt} sub={p.sub} ts={p.ts} lifi={p.lifi} lfi={p.lfi} len={p.body.length} body={hexOrDash p.body}"

def runRtp (bs : Bytes) : String :=
  match Rtp.decode bs with
  | .ok (p, rest) => s!"ok {showPkt p} rest={hexOrDash rest}"
  | .short => "short"
  | .unq => "unq"

/-- iterate like the harness does; the step that fails reports its class and what is left -/
partial def rtpAllLoop (cur : Bytes) (acc : List String) : String :=
  match Rtp.decode cur with
  | .ok (p, rest) => rtpAllLoop rest (s!"{p.seq}/{p.dt}/{p.body.length}/{p.ts}" :: acc)
  | .short => s!"n={acc.length} {";".intercalate acc.reverse} end=short left={hexOrDash cur}"
  | .unq => s!"n={acc.length} {";".intercalate acc.reverse} end=unq left={hexOrDash cur}"

def runOp (op : String) (args : List String) : String :=
  match op, args with
  | "dec", [f] =>
    match ofHex f with
    | none => "bad-op"
    | some bs =>
      match Frame.decode bs with
      | .ok m => showMsg m
      | .err => "err"
      | .panic => "panic"
  | "rtp", [f] => match ofHex f with | some bs => runRtp bs | none => "bad-op"
  | "rtpv", [f, _] => match ofHex f with | some bs => runRtp bs | none => "bad-op"
  | "rtpall", [f] => match ofHex f with | some bs => rtpAllLoop bs [] | none => "bad-op"
  | "rtpallv", [f, _] => match ofHex f with | some bs => rtpAllLoop bs [] | none => "bad-op"
  | "decv", [f, _] =>
    match ofHex f with
    | none => "bad-op"
    | some bs =>
      match Frame.decode bs with
      | .ok m => showMsg m
      | .err => "err"
      | .panic => "panic"
  | "enc", [src, rid, ser, body] =>
    match ofHex src, rid.toNat?, ser.toNat?, ofHex body with
    | some s, some rid, some ser, some b =>
      match Frame.decode s with
      | .ok m => s!"ok {toHex (Frame.encode m.h rid ser b)}"
      | _ => "src-err"
    | _, _, _, _ => "bad-op"
  | _, _ => "bad-op"

partial def loop (h : IO.FS.Stream) (out : IO.FS.Stream) : IO Unit := do
  let line ← h.getLine
  if line.isEmpty then return ()
  let toks := (line.trimAscii.toString.splitOn " ").filter (· ≠ "")
  match toks with
  | idx :: op :: args => out.putStrLn s!"{idx} {runOp op args}"
  | _ => out.putStrLn "bad-line"
  loop h out

def main : IO Unit := do
  let out ← IO.getStdout
  loop (← IO.getStdin) out
