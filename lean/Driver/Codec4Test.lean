import JT.Model.Codec4
import Std.Data.HashMap
/-!
Validation of `JT/Model/Codec4.lean` (the five active-safety extension parsers of 0x0200) against the Go code.

  cd /verif/lean && lake env lean --run Driver/Codec4Test.lean [ops.txt impl.txt]

`ops.txt` lines: `<idx> tot <TypeName> <ctx> <bodyhex> <hist>`; `impl.txt` lines: `<idx> <class>` with the class
(`ok` | `err` | `panic`) of the Go `Parse` on a fresh receiver with an exact-capacity buffer. For every line whose
type is modelled here the model is evaluated and its class compared.
-/
open JT JT.Codec4

def clsOf : Res Unit → String
  | .ok _ => "ok"
  | .err => "err"
  | .panic => "panic"

def dialectNo (s : String) : Nat :=
  if s = "JS" then 1 else if s = "HLJ" then 2 else if s = "GD" then 3 else if s = "HN" then 4
  else if s = "SC" then 5 else 0

/-- the model of a type name, given the context string (`v2013/HLJ`: only the dialect matters); `none` for a type
that is not ours. The harness entry `codecExtRecv` calls `Parse(id, content)` with the parser's own id. -/
def modelOf (ty ctx : String) : Option (Bytes → Res Unit) :=
  let parts := ctx.splitOn "/"
  let dl := JT.AttStream.dialectOf (dialectNo (parts.getD 1 ""))
  match ty with
  | "T0x0200AdditionExtension0x64" => some (parseExt64 dl)
  | "T0x0200AdditionExtension0x65" => some (parseExt65 dl)
  | "T0x0200AdditionExtension0x66" => some (parseExt66 dl)
  | "T0x0200AdditionExtension0x67" => some (parseExt67 dl)
  | "T0x0200AdditionExtension0x70" => some (parseExt70 dl)
  | _ => none

def typeNames : List String :=
  ["T0x0200AdditionExtension0x64", "T0x0200AdditionExtension0x65", "T0x0200AdditionExtension0x66",
   "T0x0200AdditionExtension0x67", "T0x0200AdditionExtension0x70"]

/-- the first `n` space-separated tokens of a line (the history field can be long and is not needed) -/
def firstToks (line : String) (n : Nat) : List String :=
  let rec go (cs : List Char) (cur : List Char) (acc : List String) (n : Nat) : List String :=
    match n with
    | 0 => acc.reverse
    | n + 1 =>
      match cs with
      | [] => (if cur.isEmpty then acc else String.ofList cur.reverse :: acc).reverse
      | c :: r =>
        if c = ' ' ∨ c = '\n' ∨ c = '\r' then
          if cur.isEmpty then go r [] acc (n + 1) else go r [] (String.ofList cur.reverse :: acc) n
        else go r (c :: cur) acc (n + 1)
  go line.toList [] [] n

structure Stat where
  compared : Nat := 0
  mism : Nat := 0
  goPanic : Nat := 0
  nOk : Nat := 0
  nErr : Nat := 0
  shown : List String := []

partial def readImpl (h : IO.FS.Handle) (m : Std.HashMap String String) : IO (Std.HashMap String String) := do
  let line ← h.getLine
  if line.isEmpty then return m
  match firstToks line 2 with
  | [i, c] => readImpl h (m.insert i c)
  | _ => readImpl h m

partial def readOps (h : IO.FS.Handle) (impl : Std.HashMap String String) (st : Std.HashMap String Stat)
    (bad : Nat) : IO (Std.HashMap String Stat × Nat) := do
  let line ← h.getLine
  if line.isEmpty then return (st, bad)
  match firstToks line 5 with
  | [i, _, ty, ctx, hex] =>
    match modelOf ty ctx with
    | none => readOps h impl st bad
    | some f =>
      match ofHex hex, impl.get? i with
      | some body, some goCls =>
        let mine := clsOf (f body)
        let s := st.getD ty {}
        let s := { s with compared := s.compared + 1 }
        let s := if goCls = "panic" then { s with goPanic := s.goPanic + 1 } else s
        let s := if goCls = "ok" then { s with nOk := s.nOk + 1 } else s
        let s := if goCls = "err" then { s with nErr := s.nErr + 1 } else s
        let s :=
          if mine = goCls then s
          else
            let s := { s with mism := s.mism + 1 }
            if s.shown.length < 5 then
              { s with shown := s.shown ++ [s!"    line {i} ctx {ctx} body {hex}: go={goCls} model={mine}"] }
            else s
        readOps h impl (st.insert ty s) bad
      | _, _ => readOps h impl st (bad + 1)
  | _ => readOps h impl st bad

def main (args : List String) : IO UInt32 := do
  let (opsPath, implPath) :=
    match args with
    | [a, b] => (a, b)
    | _ => ("/verif/.build/run/C03/ops.txt", "/verif/.build/run/C03/impl.txt")
  let hi ← IO.FS.Handle.mk implPath .read
  let impl ← readImpl hi {}
  let ho ← IO.FS.Handle.mk opsPath .read
  let (st, bad) ← readOps ho impl {} 0
  let mut totalC := 0
  let mut totalM := 0
  let mut totalP := 0
  IO.println s!"impl classes read: {impl.size}; unreadable lines of our types: {bad}"
  for ty in typeNames do
    let s := st.getD ty {}
    totalC := totalC + s.compared
    totalM := totalM + s.mism
    totalP := totalP + s.goPanic
    IO.println s!"{ty}: compared {s.compared} (go ok {s.nOk}, err {s.nErr}, panic {s.goPanic}), mismatches {s.mism}"
    for l in s.shown do IO.println l
  IO.println s!"TOTAL: compared {totalC}, mismatches {totalM}, go panics {totalP}"
  return (if totalM = 0 ∧ bad = 0 then 0 else 1)
