import JT.Basic.Bytes
import JT.Model.Frame
import JT.Proof.Bytes
import JT.Proof.Frame
import JT.Props.C01
import JT.Spec.Frame
import JT.Proof.FrameSpec
import JT.Props.C02
