module verif/harness

go 1.23.2

require (
	github.com/cuteLittleDevil/go-jt808/attachment v0.0.0
	github.com/cuteLittleDevil/go-jt808/protocol v1.12.0
	github.com/cuteLittleDevil/go-jt808/service v0.0.0
	github.com/cuteLittleDevil/go-jt808/shared v1.5.0
	github.com/cuteLittleDevil/go-jt808/terminal v0.0.0
	golang.org/x/tools v0.29.0
)

require (
	golang.org/x/mod v0.22.0 // indirect
	golang.org/x/sync v0.10.0 // indirect
	golang.org/x/text v0.21.0 // indirect
)

replace (
	github.com/cuteLittleDevil/go-jt808/attachment => /repo/attachment
	github.com/cuteLittleDevil/go-jt808/protocol => /repo/protocol
	github.com/cuteLittleDevil/go-jt808/service => /repo/service
	github.com/cuteLittleDevil/go-jt808/shared => /repo/shared
	github.com/cuteLittleDevil/go-jt808/terminal => /repo/terminal
)
