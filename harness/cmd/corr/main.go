// corr: correspondence runner. `corr <Cnn> -seed S -tier quick|thorough -dir D [-replay ops.txt]`
// generates the cases of a property, runs the implementation in-process and leaves
// ops.txt / impl.txt / oracle.txt / stats.json in D; the orchestrator pipes ops.txt to the Lean driver.
package main

import (
	"flag"
	"fmt"
	"io"
	"log/slog"
	"os"

	"verif/harness/internal/fw"
	"verif/harness/internal/props"
)

func main() {
	if len(os.Args) < 2 {
		fmt.Fprintln(os.Stderr, "usage: corr <property> [flags]")
		os.Exit(2)
	}
	id := os.Args[1]
	fs := flag.NewFlagSet("corr", flag.ExitOnError)
	seed := fs.Uint64("seed", 1, "VERIF_SEED")
	tier := fs.String("tier", "quick", "quick|thorough")
	dir := fs.String("dir", ".", "output directory")
	replay := fs.String("replay", "", "op lines to re-execute instead of generating")
	_ = fs.Parse(os.Args[2:])
	// the library prints diagnostics with fmt.Println in a few places; keep stdout clean
	if devnull, err := os.OpenFile(os.DevNull, os.O_WRONLY, 0); err == nil {
		os.Stdout = devnull
	}
	slog.SetDefault(slog.New(slog.NewTextHandler(io.Discard, nil)))
	p, ok := props.All[id]
	if !ok {
		fmt.Fprintln(os.Stderr, "unknown property", id)
		os.Exit(2)
	}
	defer props.StopServers()
	if err := fw.Run(p, *seed, *tier, *dir, *replay); err != nil {
		props.StopServers()
		fmt.Fprintln(os.Stderr, err)
		os.Exit(2)
	}
}
