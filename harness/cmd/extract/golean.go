package main

// X13 golean: a translator from a fragment of Go to Lean 4.
//
//	extract golean -repo /repo -out <dir>   →  <dir>/GoFrame.lean, <dir>/GoRtp.lean, …
//
// Selected functions of /repo are loaded with full type information (go/packages, through the harness module whose
// go.mod replaces the five modules with /repo/<module>) and translated statement by statement into Lean definitions
// over the primitives of JT/Go/Sem.lean. The translation is in continuation-passing style:
//   - a statement sequence becomes nested `X.bind … (fun x => …)` / `let x := …; …` terms; every local variable is a
//     Lean `let` whose name is unique per declared Go object, an assignment re-binds it;
//   - `if`/`switch` without return/break/continue inside become a computation that yields the tuple of variables they
//     assign; with such exits the rest of the block is duplicated into the branches (or lifted into a join definition);
//   - a loop becomes a definition by structural recursion on a `fuel` argument: one that returns the tuple of assigned
//     variables when its body has no `return`, one in continuation-passing style otherwise;
//   - pointer receivers are passed and returned by value; every access `b[i]`, `b[lo:hi]` goes through an accessor that
//     yields `panic` where Go would.
// Anything outside the fragment (aliasing writes, goroutines, maps, closures, labels, …) is listed in the generated
// `untranslated` list; an obligation demands that list to be empty.

import (
	"fmt"
	"go/ast"
	"go/token"
	"go/types"
	"os"
	"path/filepath"
	"sort"
	"strings"

	"golang.org/x/tools/go/packages"
)

const glModPrefix = "github.com/cuteLittleDevil/go-jt808/"

type glTarget struct{ pkg, recv, name string }

type glUnit struct {
	file    string // output file (without .lean) = namespace JT.Gen.<file>
	targets []glTarget
}

var glUnits = []glUnit{
	{"GoFrame", []glTarget{
		{"protocol/utils", "", "CreateVerifyCode"},
		{"protocol/utils", "", "Bcd2Dec"},
		{"protocol/jt808", "", "escape"},
		{"protocol/jt808", "", "unescape"},
		{"protocol/jt808", "BodyProperty", "decode"},
		{"protocol/jt808", "BodyProperty", "encode"},
		{"protocol/jt808", "Header", "decode"},
		{"protocol/jt808", "JTMessage", "Decode"},
		{"protocol/jt808", "Header", "Encode"},
	}},
	{"GoParse", []glTarget{
		{"service", "packageParse", "unpack"},
		{"service", "Message", "hasComplete"},
	}},
	{"GoTerm", []glTarget{
		{"terminal", "Terminal", "CreateCommandData"},
	}},
	{"GoRtp", []glTarget{
		{"protocol/jt1078", "Packet", "Decode"},
	}},
	{"GoAttach", []glTarget{
		{"attachment", "baseStreamDataHandle", "HasStreamData"},
		{"attachment", "baseStreamDataHandle", "HasMinHeadLen"},
		{"attachment", "baseStreamDataHandle", "Parse"},
		{"attachment", "baseStreamDataHandle", "GetDataOffsetAndLen"},
		{"attachment", "heiBiaoStreamDataHandle", "HasMinHeadLen"},
		{"attachment", "heiBiaoStreamDataHandle", "Parse"},
		{"attachment", "PackageProgress", "parseJT808Message"},
	}},
	{"GoModel", []glTarget{
		{"protocol/model", "P0x8001", "Encode"},
		{"protocol/model", "P0x8001", "Parse"},
		{"protocol/model", "P0x8003", "Encode"},
		{"protocol/model", "P0x8003", "Parse"},
		{"protocol/model", "P0x8100", "Encode"},
		{"protocol/model", "P0x8100", "Parse"},
		{"protocol/model", "P0x8103", "Encode"},
		{"protocol/model", "P0x8103", "Parse"},
		{"protocol/model", "P0x8104", "Encode"},
		{"protocol/model", "P0x8104", "Parse"},
		{"protocol/model", "P0x8800", "Encode"},
		{"protocol/model", "P0x8800", "Parse"},
		{"protocol/model", "P0x8801", "Encode"},
		{"protocol/model", "P0x8801", "Parse"},
		{"protocol/model", "P0x9003", "Encode"},
		{"protocol/model", "P0x9003", "Parse"},
		{"protocol/model", "P0x9101", "Encode"},
		{"protocol/model", "P0x9101", "Parse"},
		{"protocol/model", "P0x9102", "Encode"},
		{"protocol/model", "P0x9102", "Parse"},
		{"protocol/model", "P0x9105", "Encode"},
		{"protocol/model", "P0x9105", "Parse"},
		{"protocol/model", "P0x9201", "Encode"},
		{"protocol/model", "P0x9201", "Parse"},
		{"protocol/model", "P0x9202", "Encode"},
		{"protocol/model", "P0x9202", "Parse"},
		{"protocol/model", "P0x9205", "Encode"},
		{"protocol/model", "P0x9205", "Parse"},
		{"protocol/model", "P0x9206", "Encode"},
		{"protocol/model", "P0x9206", "Parse"},
		{"protocol/model", "P0x9207", "Encode"},
		{"protocol/model", "P0x9207", "Parse"},
		{"protocol/model", "P0x9208", "Encode"},
		{"protocol/model", "P0x9208", "Parse"},
		{"protocol/model", "P0x9212", "Encode"},
		{"protocol/model", "P0x9212", "Parse"},
		{"protocol/model", "T0x0001", "Encode"},
		{"protocol/model", "T0x0001", "Parse"},
		{"protocol/model", "T0x0002", "Encode"},
		{"protocol/model", "T0x0100", "Encode"},
		{"protocol/model", "T0x0100", "Parse"},
		{"protocol/model", "T0x0102", "Encode"},
		{"protocol/model", "T0x0102", "Parse"},
		{"protocol/model", "T0x0104", "Encode"},
		{"protocol/model", "T0x0104", "Parse"},
		{"protocol/model", "T0x0200", "Encode"},
		{"protocol/model", "T0x0200", "Parse"},
		{"protocol/model", "T0x0200AdditionExtension0x64", "Parse"},
		{"protocol/model", "T0x0200AdditionExtension0x65", "Parse"},
		{"protocol/model", "T0x0200AdditionExtension0x66", "Parse"},
		{"protocol/model", "T0x0200AdditionExtension0x67", "Parse"},
		{"protocol/model", "T0x0200AdditionExtension0x70", "Parse"},
		{"protocol/model", "T0x0704", "Encode"},
		{"protocol/model", "T0x0704", "Parse"},
		{"protocol/model", "T0x0800", "Encode"},
		{"protocol/model", "T0x0800", "Parse"},
		{"protocol/model", "T0x0801", "Encode"},
		{"protocol/model", "T0x0801", "Parse"},
		{"protocol/model", "T0x0805", "Encode"},
		{"protocol/model", "T0x0805", "Parse"},
		{"protocol/model", "T0x1003", "Encode"},
		{"protocol/model", "T0x1003", "Parse"},
		{"protocol/model", "T0x1005", "Encode"},
		{"protocol/model", "T0x1005", "Parse"},
		{"protocol/model", "T0x1205", "Encode"},
		{"protocol/model", "T0x1205", "Parse"},
		{"protocol/model", "T0x1206", "Encode"},
		{"protocol/model", "T0x1206", "Parse"},
		{"protocol/model", "T0x1210", "Encode"},
		{"protocol/model", "T0x1210", "Parse"},
		{"protocol/model", "T0x1211", "Encode"},
		{"protocol/model", "T0x1211", "Parse"},
		{"protocol/model", "BaseHandle", "ReplyBody"},
		{"protocol/model", "T0x0100", "ReplyBody"},
		{"protocol/model", "T0x0102", "ReplyBody"},
		{"protocol/model", "T0x0801", "ReplyBody"},
		{"protocol/model", "T0x0200LocationItem", "parse"},
	}},
}

type glStruct struct {
	name string
	st   *types.Struct
}

type glFn struct {
	obj      *types.Func
	decl     *ast.FuncDecl
	pkg      *packages.Package
	lean     string
	recv     *types.Var // nil for functions
	recvPtr  bool
	resT     string // Lean result type (inside X)
	results  []*types.Var
	done, ok bool
	busy     bool
	unit     string // the generated file that defines it
}

type gl struct {
	pkgs         map[string]*packages.Package
	fns          map[*types.Func]*glFn
	structs      []glStruct
	anon         map[string]string // anonymous struct types (by type string) -> Lean name
	structSeen   map[*types.Named]bool
	structByName map[string]bool
	out          strings.Builder // definitions, in dependency order
	unsupported  []string
	names        map[types.Object]string
	nameCnt      map[string]int
	tmp          int
	cur          *glFn
	jn           int
	exported     map[string][]string
	fb           *strings.Builder // definitions of the function being translated
}

func (g *gl) bad(pos token.Pos, format string, a ...any) {
	where := ""
	if g.cur != nil {
		where = g.cur.lean + ": "
		if pos.IsValid() {
			where += g.cur.pkg.Fset.Position(pos).String()[len(filepath.Dir(g.cur.pkg.Fset.Position(pos).Filename))+1:] + ": "
		}
	}
	g.unsupported = append(g.unsupported, where+fmt.Sprintf(format, a...))
}

func (g *gl) fresh(p string) string { g.tmp++; return fmt.Sprintf("%s%d", p, g.tmp) }

// name of a local variable: unique per declared object
func (g *gl) vname(o types.Object) string {
	if n, ok := g.names[o]; ok {
		return n
	}
	base := o.Name()
	if base == "_" || base == "" {
		base = "blank"
	}
	g.nameCnt[base]++
	n := fmt.Sprintf("%s_%d", base, g.nameCnt[base])
	g.names[o] = n
	return n
}

var glKeywords = map[string]bool{"attribute": true, "end": true, "from": true, "at": true, "fun": true, "have": true, "show": true, "open": true,
	"namespace": true, "section": true, "instance": true, "structure": true, "class": true, "deriving": true, "where": true, "with": true, "do": true,
	"then": true, "else": true, "if": true, "let": true, "in": true, "by": true, "match": true, "Type": true, "Prop": true, "Sort": true, "theorem": true,
	"def": true, "local": true, "private": true, "mutual": true, "export": true, "import": true, "universe": true, "variable": true, "example": true,
	"abbrev": true, "inductive": true, "axiom": true, "opaque": true, "macro": true, "syntax": true, "notation": true, "infix": true, "prefix": true,
	"postfix": true, "using": true, "calc": true, "suffices": true, "return": true, "for": true, "unless": true, "try": true, "catch": true, "finally": true,
	"mut": true, "break": true, "continue": true, "nomatch": true, "termination_by": true, "decreasing_by": true, "extends": true, "protected": true,
	"noncomputable": true, "partial": true, "unsafe": true, "set_option": true, "omit": true, "include": true, "initialize": true, "elab": true}

// Lean name of a struct field
func glField(n string) string {
	if glKeywords[n] {
		return n + "_"
	}
	return n
}

func shortPkg(path string) string { return path[strings.LastIndex(path, "/")+1:] }

func (g *gl) structName(n *types.Named) string {
	name := shortPkg(n.Obj().Pkg().Path()) + "_" + n.Obj().Name()
	if ta := n.TypeArgs(); ta != nil { // an instance of a generic type
		for i := 0; i < ta.Len(); i++ {
			name += "_" + strings.Trim(strings.ReplaceAll(g.leanType(ta.At(i)), " ", "_"), "()")
		}
	}
	return name
}

func isBytesBuffer(t types.Type) bool {
	if p, ok := t.(*types.Pointer); ok {
		t = p.Elem()
	}
	n, ok := t.(*types.Named)
	return ok && n.Obj().Pkg() != nil && n.Obj().Pkg().Path() == "bytes" && n.Obj().Name() == "Buffer"
}

// leanType maps a Go type to the Lean type of its values; "" = outside the fragment
func (g *gl) leanType(t types.Type) string {
	if isBytesBuffer(t) {
		return "Bytes"
	}
	switch x := t.(type) {
	case *types.Pointer:
		if n, ok := x.Elem().(*types.Named); ok {
			if _, ok := n.Underlying().(*types.Struct); ok {
				return g.needStruct(n)
			}
		}
		return ""
	case *types.Named:
		if x.Obj().Pkg() == nil && x.Obj().Name() == "error" {
			return "GoErr"
		}
		if _, ok := x.Underlying().(*types.Struct); ok {
			return g.needStruct(x)
		}
		return g.leanType(x.Underlying())
	case *types.Alias:
		return g.leanType(types.Unalias(x))
	case *types.Struct:
		return g.needAnon(x)
	case *types.Basic:
		switch x.Kind() {
		case types.Int, types.Int64, types.UntypedInt, types.UntypedRune:
			return "Int"
		case types.Uint8:
			return "UInt8"
		case types.Uint16:
			return "UInt16"
		case types.Uint32:
			return "UInt32"
		case types.Uint64:
			return "UInt64"
		case types.Bool, types.UntypedBool:
			return "Bool"
		case types.String, types.UntypedString:
			return "Bytes"
		}
		return ""
	case *types.Slice:
		e := g.leanType(x.Elem())
		if e == "" {
			return ""
		}
		if e == "UInt8" {
			return "Bytes"
		}
		return "(List " + e + ")"
	case *types.Interface:
		if x.NumMethods() == 1 && x.Method(0).Name() == "Error" {
			return "GoErr"
		}
	}
	return ""
}

func (g *gl) needStruct(n *types.Named) string {
	if ta := n.TypeArgs(); ta != nil {
		for i := 0; i < ta.Len(); i++ {
			if g.leanType(ta.At(i)) == "" {
				return "" // an instance over a type outside the fragment
			}
		}
	}
	name := g.structName(n)
	if g.structSeen[n] || g.structByName[name] {
		return name
	}
	g.structSeen[n] = true
	if g.structByName == nil {
		g.structByName = map[string]bool{}
	}
	g.structByName[name] = true
	st := n.Underlying().(*types.Struct)
	for i := 0; i < st.NumFields(); i++ {
		g.leanType(st.Field(i).Type()) // registers nested structs first
	}
	g.structs = append(g.structs, glStruct{name, st})
	return name
}

// an anonymous struct type (the type of a field such as Message.ExtensionFields): named after its field names
func (g *gl) needAnon(st *types.Struct) string {
	key := types.TypeString(st, nil)
	if g.anon == nil {
		g.anon = map[string]string{}
	}
	if n, ok := g.anon[key]; ok {
		return n
	}
	name := fmt.Sprintf("anon%d", len(g.anon)+1)
	for i := 0; i < st.NumFields() && i < 2; i++ {
		name += "_" + st.Field(i).Name()
	}
	g.anon[key] = name
	for i := 0; i < st.NumFields(); i++ {
		g.leanType(st.Field(i).Type())
	}
	g.structs = append(g.structs, glStruct{name, st})
	return name
}

// zero value of a Go type as a Lean term
func (g *gl) zero(t types.Type) string {
	lt := g.leanType(t)
	switch lt {
	case "Int":
		return "(0 : Int)"
	case "UInt8", "UInt16", "UInt32", "UInt64":
		return "(0 : " + lt + ")"
	case "Bool":
		return "false"
	case "Bytes":
		return "([] : Bytes)"
	case "GoErr":
		return "(none : GoErr)"
	case "":
		return ""
	}
	if strings.HasPrefix(lt, "(List ") {
		return "([] : " + lt[1:len(lt)-1] + ")"
	}
	return lt + ".zero"
}

func (g *gl) emitStructs() string {
	var b strings.Builder
	for _, n := range g.structs {
		st := n.st
		name := n.name
		fmt.Fprintf(&b, "structure %s where\n", name)
		var zs []string
		for i := 0; i < st.NumFields(); i++ {
			f := st.Field(i)
			lt := g.leanType(f.Type())
			if lt == "" {
				continue // a field outside the fragment: any use of it is reported where it occurs
			}
			fmt.Fprintf(&b, "  %s : %s\n", glField(f.Name()), lt)
			zs = append(zs, fmt.Sprintf("%s := %s", glField(f.Name()), g.zero(f.Type())))
		}
		b.WriteString("deriving Repr, DecidableEq\n")
		fmt.Fprintf(&b, "def %s.zero : %s := { %s }\n\n", name, name, strings.Join(zs, ", "))
	}
	return b.String()
}

func (g *gl) load(harness string, modfile string) error {
	cfg := &packages.Config{
		Mode: packages.NeedTypes | packages.NeedSyntax | packages.NeedTypesInfo | packages.NeedName | packages.NeedFiles | packages.NeedImports | packages.NeedDeps,
		Dir:  harness,
		Env:  append(os.Environ(), "GOFLAGS=-mod=mod", "GOPROXY=off", "GOSUMDB=off", "GOTOOLCHAIN=local"),
	}
	if modfile != "" {
		cfg.BuildFlags = []string{"-modfile=" + modfile}
	}
	want := map[string]bool{}
	for _, u := range glUnits {
		for _, t := range u.targets {
			want[glModPrefix+t.pkg] = true
		}
	}
	var pats []string
	for p := range want {
		pats = append(pats, p)
	}
	sort.Strings(pats)
	ps, err := packages.Load(cfg, pats...)
	if err != nil {
		return err
	}
	var visit func(p *packages.Package)
	visit = func(p *packages.Package) {
		if g.pkgs[p.PkgPath] != nil || !strings.HasPrefix(p.PkgPath, glModPrefix) {
			return
		}
		g.pkgs[p.PkgPath] = p
		for _, q := range p.Imports {
			visit(q)
		}
	}
	for _, p := range ps {
		if len(p.Errors) > 0 {
			return fmt.Errorf("%s: %v", p.PkgPath, p.Errors[0])
		}
		visit(p)
	}
	// index function declarations
	for _, p := range g.pkgs {
		for _, f := range p.Syntax {
			for _, d := range f.Decls {
				fd, ok := d.(*ast.FuncDecl)
				if !ok || fd.Body == nil {
					continue
				}
				obj, _ := p.TypesInfo.Defs[fd.Name].(*types.Func)
				if obj == nil {
					continue
				}
				g.fns[obj] = &glFn{obj: obj, decl: fd, pkg: p}
			}
		}
	}
	return nil
}

func (g *gl) find(t glTarget) *glFn {
	for _, fn := range g.fns {
		if fn.pkg.PkgPath != glModPrefix+t.pkg || fn.obj.Name() != t.name {
			continue
		}
		sig := fn.obj.Type().(*types.Signature)
		r := ""
		if sig.Recv() != nil {
			rt := sig.Recv().Type()
			if p, ok := rt.(*types.Pointer); ok {
				rt = p.Elem()
			}
			if n, ok := rt.(*types.Named); ok {
				r = n.Obj().Name()
			}
		}
		if r == t.recv {
			return fn
		}
	}
	return nil
}

func doGoLean(repo, out string) error {
	harness := os.Getenv("VERIF_HARNESS")
	if harness == "" {
		harness = "/verif/harness"
	}
	// one translator state for all units: a function or struct translated for an earlier unit is referred to there
	g := &gl{pkgs: map[string]*packages.Package{}, fns: map[*types.Func]*glFn{}, structSeen: map[*types.Named]bool{},
		names: map[types.Object]string{}, nameCnt: map[string]int{}}
	loadErr := g.load(harness, os.Getenv("VERIF_MODFILE"))
	var earlier []string
	for _, u := range glUnits {
		g.out.Reset()
		g.structs = nil
		g.unsupported = nil
		var translated []string
		if loadErr != nil {
			g.unsupported = append(g.unsupported, "load: "+loadErr.Error())
		} else {
			for _, t := range u.targets {
				fn := g.find(t)
				if fn == nil {
					g.unsupported = append(g.unsupported, fmt.Sprintf("%s.%s.%s: not found", t.pkg, t.recv, t.name))
					continue
				}
				if g.translateFn(fn) {
					translated = append(translated, fn.lean)
				}
			}
		}
		var b strings.Builder
		fmt.Fprintf(&b, "import JT.Go.Sem\n")
		for _, e := range earlier {
			fmt.Fprintf(&b, "import JT.Gen.%s\n", e)
		}
		fmt.Fprintf(&b, "/-! GENERATED by `extract golean` from /repo — do not edit. Translation of Go source into Lean (see harness/cmd/extract/golean.go). -/\n")
		b.WriteString("set_option linter.unusedVariables false\n")
		fmt.Fprintf(&b, "namespace JT.Gen.%s\nopen JT JT.Go\n", u.file)
		for _, e := range earlier {
			fmt.Fprintf(&b, "open JT.Gen.%s (", e)
			b.WriteString(strings.Join(g.exported[e], " "))
			b.WriteString(")\n")
		}
		b.WriteString("\n")
		b.WriteString(g.emitStructs())
		b.WriteString(g.out.String())
		sort.Strings(translated)
		fmt.Fprintf(&b, "def translated : List String := [%s]\n", quoteList(translated))
		fmt.Fprintf(&b, "def untranslated : List String := [%s]\n", quoteList(g.unsupported))
		fmt.Fprintf(&b, "\nend JT.Gen.%s\n", u.file)
		if err := writeIfChanged(filepath.Join(out, u.file+".lean"), b.String()); err != nil {
			return err
		}
		for _, s := range g.unsupported {
			fmt.Fprintln(os.Stderr, "golean: untranslated:", s)
		}
		// names this unit defines (functions and structs), for the `open` of later units
		if g.exported == nil {
			g.exported = map[string][]string{}
		}
		var names []string
		for _, n := range g.structs {
			names = append(names, n.name)
		}
		for _, fn := range g.fns {
			if fn.done && fn.ok && fn.unit == "" {
				fn.unit = u.file
				names = append(names, fn.lean)
			}
		}
		sort.Strings(names)
		if len(names) > 0 {
			g.exported[u.file] = names
			earlier = append(earlier, u.file)
		}
	}
	_ = repo
	return nil
}

func quoteList(xs []string) string {
	var q []string
	for _, x := range xs {
		q = append(q, fmt.Sprintf("%q", x))
	}
	return strings.Join(q, ", ")
}
