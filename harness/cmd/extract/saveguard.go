package main

// X8 saveguard: translates the part of attachment/file_event.go that decides which announced file names are
// stored, and under which path, into Lean definitions over JT.Path (lean/JT/Model/Path.lean).
//
// Recognised shape (success-quit branch of (*fileEvent).OnEvent):
//   phone := <expr>                                   -> phoneSource (source text)
//   os.MkdirAll(<ident>, ...)                         -> mkdirTarget
//   for name, pack := range progress.Record {
//       if <cond> { ...; continue }                   -> skip(name) gets  || cond
//       x := <operand>                                -> substitution
//       savePath := fmt.Sprintf(<fmt>, a, b)          -> pathFmt, pathArgs (after substitution)
//       ... os.WriteFile(<ident>, ...)                -> writeTarget
//   }
// Conditions are translated over: ||, &&, !, ==, !=, parentheses; operands: the loop variable, string literals,
// filepath.Base(x), filepath.Clean is NOT supported. Predicates: strings.Contains / HasPrefix / HasSuffix (x, lit),
// filepath.IsAbs(x). Anything else is listed in `untranslated` (a Props obligation demands that list to be empty).

import (
	"fmt"
	"go/ast"
	"go/parser"
	"go/token"
	"path/filepath"
	"strconv"
	"strings"
)

type sgCtx struct {
	loopVar string
	subst   map[string]string // Go identifier -> Lean operand expression
	untr    []string
}

func leanBytes(s string) string {
	var p []string
	for _, b := range []byte(s) {
		p = append(p, fmt.Sprintf("0x%02x", b))
	}
	return "([" + strings.Join(p, ", ") + "] : Bytes)"
}

func (c *sgCtx) operand(e ast.Expr) (string, bool) {
	switch x := e.(type) {
	case *ast.ParenExpr:
		return c.operand(x.X)
	case *ast.Ident:
		if x.Name == c.loopVar {
			return "name", true
		}
		if s, ok := c.subst[x.Name]; ok {
			return s, true
		}
	case *ast.BasicLit:
		if x.Kind == token.STRING {
			if s, err := strconv.Unquote(x.Value); err == nil {
				return leanBytes(s), true
			}
		}
	case *ast.CallExpr:
		if exprString(x.Fun) == "filepath.Base" && len(x.Args) == 1 {
			if a, ok := c.operand(x.Args[0]); ok {
				return "(goBase " + a + ")", true
			}
		}
	}
	return "", false
}

func (c *sgCtx) cond(e ast.Expr) string {
	switch x := e.(type) {
	case *ast.ParenExpr:
		return c.cond(x.X)
	case *ast.UnaryExpr:
		if x.Op == token.NOT {
			return "(!" + c.cond(x.X) + ")"
		}
	case *ast.BinaryExpr:
		switch x.Op {
		case token.LOR:
			return "(" + c.cond(x.X) + " || " + c.cond(x.Y) + ")"
		case token.LAND:
			return "(" + c.cond(x.X) + " && " + c.cond(x.Y) + ")"
		case token.EQL, token.NEQ:
			a, ok1 := c.operand(x.X)
			b, ok2 := c.operand(x.Y)
			if ok1 && ok2 {
				op := "=="
				if x.Op == token.NEQ {
					op = "!="
				}
				return "(" + a + " " + op + " " + b + ")"
			}
		}
	case *ast.CallExpr:
		fn := exprString(x.Fun)
		switch fn {
		case "strings.Contains", "strings.HasPrefix", "strings.HasSuffix":
			if len(x.Args) == 2 {
				a, ok1 := c.operand(x.Args[0])
				b, ok2 := c.operand(x.Args[1])
				if ok1 && ok2 {
					m := map[string]string{"strings.Contains": "containsB", "strings.HasPrefix": "hasPrefixB", "strings.HasSuffix": "hasSuffixB"}[fn]
					return "(" + m + " " + a + " " + b + ")"
				}
			}
		case "filepath.IsAbs":
			if len(x.Args) == 1 {
				if a, ok := c.operand(x.Args[0]); ok {
					return "(hasPrefixB " + a + " [slash])"
				}
			}
		}
	}
	c.untr = append(c.untr, exprString(e))
	return "false"
}

func containsCall(n ast.Node, fn string) (found *ast.CallExpr) {
	ast.Inspect(n, func(m ast.Node) bool {
		if ce, ok := m.(*ast.CallExpr); ok && exprString(ce.Fun) == fn && found == nil {
			found = ce
		}
		return found == nil
	})
	return
}

// inHelper: the per-file code was extracted into a helper function called once per record; there a `return`
// plays the role of the loop's `continue`
var inHelper bool

func endsInContinue(b *ast.BlockStmt) bool {
	if len(b.List) == 0 {
		return false
	}
	if _, ok := b.List[len(b.List)-1].(*ast.ReturnStmt); ok && inHelper {
		return true
	}
	br, ok := b.List[len(b.List)-1].(*ast.BranchStmt)
	return ok && br.Tok == token.CONTINUE
}

func doSaveGuard(repo, out string) error {
	fset := token.NewFileSet()
	path := filepath.Join(repo, "attachment", "file_event.go")
	f, err := parser.ParseFile(fset, path, nil, 0)
	if err != nil {
		return err
	}
	fd := findMethod(f, "fileEvent", "OnEvent")
	recognised := fd != nil
	c := &sgCtx{subst: map[string]string{}}
	skip := []string{}
	pathFmt, writeTarget, mkdirTarget, phoneSource := "", "", "", ""
	var pathArgs []string
	phoneName := "phone"
	var creators []string
	writes := 0
	// every call in the whole package that can create a file system entry
	pkgs, _ := parser.ParseDir(fset, filepath.Join(repo, "attachment"), nil, 0)
	for _, p := range pkgs {
		for fname, pf := range p.Files {
			if strings.HasSuffix(fname, "_test.go") {
				continue
			}
			ast.Inspect(pf, func(n ast.Node) bool {
				if ce, ok := n.(*ast.CallExpr); ok {
					fn := exprString(ce.Fun)
					switch fn {
					case "os.WriteFile", "os.Create", "os.OpenFile", "os.MkdirAll", "os.Mkdir", "os.Rename", "os.Symlink", "os.Link", "os.CreateTemp", "os.MkdirTemp", "ioutil.WriteFile":
						arg := ""
						if len(ce.Args) > 0 {
							arg = exprString(ce.Args[0])
						}
						creators = append(creators, filepath.Base(fname)+":"+fn+"("+arg+")")
					}
				}
				return true
			})
		}
	}
	sortStrings(creators)
	if fd != nil {
		var quitCase *ast.CaseClause
		ast.Inspect(fd.Body, func(n ast.Node) bool {
			if cc, ok := n.(*ast.CaseClause); ok {
				for _, e := range cc.List {
					if exprString(e) == "ProgressStageSuccessQuit" {
						quitCase = cc
					}
				}
			}
			return true
		})
		if quitCase == nil {
			recognised = false
		} else {
			for _, st := range quitCase.Body {
				switch s := st.(type) {
				case *ast.AssignStmt:
					if len(s.Lhs) == 1 && len(s.Rhs) == 1 && exprString(s.Lhs[0]) == "phone" {
						phoneSource = exprString(s.Rhs[0])
					}
					if m := containsCall(st, "os.MkdirAll"); m != nil && len(m.Args) > 0 {
						mkdirTarget = exprString(m.Args[0])
					}
				case *ast.RangeStmt:
					if exprString(s.X) != "progress.Record" || s.Key == nil {
						continue
					}
					c.loopVar = exprString(s.Key)
					var walk func(list []ast.Stmt, guard string)
					walk = func(list []ast.Stmt, guard string) {
						for _, b := range list {
							switch t := b.(type) {
							case *ast.IfStmt:
								if t.Init == nil && t.Else == nil && endsInContinue(t.Body) && containsCall(t.Body, "os.WriteFile") == nil {
									skip = append(skip, c.cond(t.Cond))
									continue
								}
								if t.Init == nil && t.Else == nil && containsCall(t.Body, "os.WriteFile") != nil {
									skip = append(skip, "(!"+c.cond(t.Cond)+")")
									walk(t.Body.List, guard)
									continue
								}
								if containsCall(t, "os.WriteFile") != nil {
									recognised = false
								}
							case *ast.AssignStmt:
								if len(t.Lhs) >= 1 && len(t.Rhs) == 1 && (t.Tok == token.DEFINE || t.Tok == token.ASSIGN) {
									lhs := exprString(t.Lhs[0])
									if ce, ok := t.Rhs[0].(*ast.CallExpr); ok && exprString(ce.Fun) == "fmt.Sprintf" && len(ce.Args) >= 1 {
										if lit, ok := ce.Args[0].(*ast.BasicLit); ok {
											pf, _ := strconv.Unquote(lit.Value)
											pathFmt = pf
											pathArgs = nil
											for _, a := range ce.Args[1:] {
												if exprString(a) == phoneName {
													pathArgs = append(pathArgs, "phone")
												} else if o, ok := c.operand(a); ok {
													pathArgs = append(pathArgs, o)
												} else {
													pathArgs = append(pathArgs, "?"+exprString(a))
												}
											}
											c.subst["#"+lhs] = "path"
											if containsCall(t, "os.WriteFile") == nil {
												writeTargetCandidate = lhs
											}
											continue
										}
									}
									if o, ok := c.operand(t.Rhs[0]); ok && lhs != "_" && containsCall(t, "os.WriteFile") == nil {
										if lhs == c.loopVar {
											// the loop variable itself is rewritten: later uses see the new value
											c.subst[lhs] = o
											c.loopVar = "\x00"
										} else {
											c.subst[lhs] = o
										}
										continue
									}
								}
								if w := containsCall(t, "os.WriteFile"); w != nil {
									writes++
									if len(w.Args) > 0 {
										writeTarget = exprString(w.Args[0])
									}
								}
							default:
								if w := containsCall(b, "os.WriteFile"); w != nil {
									writes++
									if len(w.Args) > 0 {
										writeTarget = exprString(w.Args[0])
									}
								}
							}
						}
					}
					// the per-record code may live in a helper of the same package, called with the phone and the record key:
					// analyse the helper's body with its parameters standing for the arguments
					handled := false
					if containsCall(s.Body, "os.WriteFile") == nil {
						ast.Inspect(s.Body, func(n ast.Node) bool {
							ce, ok := n.(*ast.CallExpr)
							if !ok || handled {
								return !handled
							}
							id, ok := ce.Fun.(*ast.Ident)
							if !ok {
								return true
							}
							var helper *ast.FuncDecl
							for _, d := range f.Decls {
								if fd2, ok := d.(*ast.FuncDecl); ok && fd2.Recv == nil && fd2.Name.Name == id.Name && fd2.Body != nil {
									helper = fd2
								}
							}
							if helper == nil || containsCall(helper.Body, "os.WriteFile") == nil {
								return true
							}
							var params []string
							for _, fl := range helper.Type.Params.List {
								for _, nm := range fl.Names {
									params = append(params, nm.Name)
								}
							}
							if len(params) != len(ce.Args) {
								return true
							}
							keyParam, phParam := "", ""
							for i, a := range ce.Args {
								switch exprString(a) {
								case c.loopVar:
									keyParam = params[i]
								case "phone":
									phParam = params[i]
								}
							}
							if keyParam == "" || phParam == "" {
								return true
							}
							c.loopVar, phoneName = keyParam, phParam
							inHelper = true
							walk(helper.Body.List, "")
							inHelper = false
							handled = true
							return false
						})
					}
					if !handled {
						walk(s.Body.List, "")
					}
				default:
					if m := containsCall(st, "os.MkdirAll"); m != nil && len(m.Args) > 0 {
						mkdirTarget = exprString(m.Args[0])
					}
				}
			}
		}
	}
	if writes != 1 || writeTarget == "" || writeTarget != writeTargetCandidate {
		recognised = false
	}
	skipExpr := "false"
	if len(skip) > 0 {
		skipExpr = strings.Join(skip, " || ")
	}
	stored := "name"
	if len(pathArgs) == 2 {
		stored = pathArgs[1]
	}
	q := func(l []string) string {
		var p []string
		for _, s := range l {
			p = append(p, strconv.Quote(s))
		}
		return "[" + strings.Join(p, ", ") + "]"
	}
	var sb strings.Builder
	sb.WriteString("import JT.Model.Path\n/-! GENERATED by /verif/harness/cmd/extract (saveguard) from (*fileEvent).OnEvent in /repo/attachment/file_event.go — do not edit.\n")
	sb.WriteString("`skip name`: the announced name is not stored; `stored name`: the last path component used for it;\nthe remaining definitions are source facts checked by `decide` obligations in JT/Props/C19.lean. -/\n")
	sb.WriteString("namespace JT.Gen.SaveGuard\nopen JT JT.Path\n")
	fmt.Fprintf(&sb, "def skip (name : Bytes) : Bool := %s\n", skipExpr)
	fmt.Fprintf(&sb, "def stored (name : Bytes) : Bytes := %s\n", stored)
	fmt.Fprintf(&sb, "def pathFmt : String := %s\n", strconv.Quote(pathFmt))
	fmt.Fprintf(&sb, "def pathFirstArg : String := %s\n", strconv.Quote(first(pathArgs)))
	fmt.Fprintf(&sb, "def pathArgCount : Nat := %d\n", len(pathArgs))
	fmt.Fprintf(&sb, "def writeTarget : String := %s\n", strconv.Quote(writeTarget))
	fmt.Fprintf(&sb, "def mkdirTarget : String := %s\n", strconv.Quote(mkdirTarget))
	fmt.Fprintf(&sb, "def phoneSource : String := %s\n", strconv.Quote(phoneSource))
	// the phone is the header phone of the most recent terminal message, however the ExtensionFields value is reached
	// (progress.ExtensionFields.… or a local copy of it)
	fmt.Fprintf(&sb, "def phoneIsHeaderPhone : Bool := %v\n", strings.HasSuffix(phoneSource, ".RecentTerminalMessage.Header.TerminalPhoneNo"))
	fmt.Fprintf(&sb, "def creators : List String := %s\n", q(creators))
	fmt.Fprintf(&sb, "def untranslated : List String := %s\n", q(c.untr))
	fmt.Fprintf(&sb, "def recognised : Bool := %v\n", recognised)
	sb.WriteString("end JT.Gen.SaveGuard\n")
	return writeIfChanged(filepath.Join(out, "SaveGuard.lean"), sb.String())
}

var writeTargetCandidate string

func first(l []string) string {
	if len(l) == 0 {
		return ""
	}
	return l[0]
}

func sortStrings(l []string) {
	for i := 1; i < len(l); i++ {
		for j := i; j > 0 && l[j] < l[j-1]; j-- {
			l[j], l[j-1] = l[j-1], l[j]
		}
	}
}
