package main

// golean, part 2: expressions. An expression is translated into a list of bindings (monadic: `idx`, `slice`, calls of
// translated functions; or pure) followed by a pure Lean term.

import (
	"fmt"
	"go/ast"
	"go/constant"
	"go/token"
	"go/types"
	"strings"
)

type glBind struct {
	name string
	term string
	pure bool
}

// wrap puts `body` under the bindings
func glWrap(bs []glBind, body string) string {
	for i := len(bs) - 1; i >= 0; i-- {
		b := bs[i]
		if b.pure {
			body = fmt.Sprintf("(let %s := %s;\n %s)", b.name, b.term, body)
		} else {
			body = fmt.Sprintf("(X.bind %s (fun %s =>\n %s))", b.term, b.name, body)
		}
	}
	return body
}

func (g *gl) info() *types.Info { return g.cur.pkg.TypesInfo }

func (g *gl) typeOf(e ast.Expr) types.Type {
	if tv, ok := g.info().Types[e]; ok && tv.Type != nil {
		return tv.Type
	}
	if id, ok := e.(*ast.Ident); ok {
		if o := g.info().ObjectOf(id); o != nil {
			return o.Type()
		}
	}
	return nil
}

func (g *gl) constLit(v constant.Value, t types.Type) (string, bool) {
	lt := g.leanType(t)
	switch v.Kind() {
	case constant.Bool:
		if constant.BoolVal(v) {
			return "true", true
		}
		return "false", true
	case constant.Int:
		if lt == "" {
			return "", false
		}
		s := v.ExactString()
		if strings.HasPrefix(s, "-") {
			return fmt.Sprintf("(%s : %s)", s, lt), true
		}
		return fmt.Sprintf("(%s : %s)", s, lt), true
	case constant.String:
		bs := []byte(constant.StringVal(v))
		var xs []string
		for _, c := range bs {
			xs = append(xs, fmt.Sprintf("%d", c))
		}
		return "([" + strings.Join(xs, ", ") + "] : Bytes)", true
	}
	return "", false
}

func glWidth(lt string) int {
	switch lt {
	case "UInt8":
		return 8
	case "UInt16":
		return 16
	case "UInt32":
		return 32
	case "UInt64":
		return 64
	}
	return 0
}

// expr translates e; binds are appended to *bs
func (g *gl) expr(e ast.Expr, bs *[]glBind) string {
	e = ast.Unparen(e)
	if tv, ok := g.info().Types[e]; ok && tv.Value != nil {
		if s, ok := g.constLit(tv.Value, tv.Type); ok {
			return s
		}
	}
	switch x := e.(type) {
	case *ast.Ident:
		switch x.Name {
		case "nil":
			t := g.typeOf(x)
			_ = t
			return "none" // only used where the context fixes the type (error); slices are handled by callers
		case "true", "false":
			return x.Name
		}
		o := g.info().ObjectOf(x)
		if v, ok := o.(*types.Var); ok && !v.IsField() {
			if v.Parent() == v.Pkg().Scope() {
				return g.pkgVar(v, x.Pos())
			}
			return g.vname(v)
		}
		g.bad(x.Pos(), "identifier %s", x.Name)
		return "sorryIdent"
	case *ast.SelectorExpr:
		if sel, ok := g.info().Selections[x]; ok && sel.Kind() == types.FieldVal {
			base := g.expr(x.X, bs)
			if g.leanType(sel.Obj().Type()) == "" {
				g.bad(x.Pos(), "field %s has a type outside the fragment", x.Sel.Name)
			}
			return base + g.fieldPath(sel)
		}
		if v, ok := g.info().Uses[x.Sel].(*types.Var); ok { // package-level variable of another package
			return g.pkgVar(v, x.Pos())
		}
		g.bad(x.Pos(), "selector %s", x.Sel.Name)
		return "sorrySel"
	case *ast.UnaryExpr:
		a := g.expr(x.X, bs)
		lt := g.leanType(g.typeOf(x.X))
		switch x.Op {
		case token.NOT:
			return "(!" + a + ")"
		case token.SUB:
			if lt == "Int" {
				return "(-" + a + ")"
			}
			return "(0 - " + a + ")"
		case token.XOR:
			if glWidth(lt) > 0 {
				return "(~~~" + a + ")"
			}
		case token.ADD:
			return a
		case token.AND: // &T{...}
			return a
		}
		g.bad(x.Pos(), "unary %s", x.Op)
		return a
	case *ast.StarExpr:
		return g.expr(x.X, bs)
	case *ast.BinaryExpr:
		return g.binary(x, bs)
	case *ast.IndexExpr:
		b := g.expr(x.X, bs)
		i := g.expr(x.Index, bs)
		i = g.toInt(i, g.typeOf(x.Index))
		acc := "idx"
		if xt := g.leanType(g.typeOf(x.X)); strings.HasPrefix(xt, "(List ") {
			acc = "lidx"
		} else if xt != "Bytes" {
			g.bad(x.Pos(), "index into %s", g.typeOf(x.X))
		}
		n := g.fresh("t")
		*bs = append(*bs, glBind{n, fmt.Sprintf("(%s %s %s)", acc, b, i), false})
		return n
	case *ast.SliceExpr:
		if x.Slice3 {
			g.bad(x.Pos(), "3-index slice")
		}
		b := g.expr(x.X, bs)
		if g.leanType(g.typeOf(x.X)) != "Bytes" {
			g.bad(x.Pos(), "slice of %s", g.typeOf(x.X))
		}
		n := g.fresh("t")
		switch {
		case x.Low == nil && x.High == nil:
			return b
		case x.Low == nil:
			*bs = append(*bs, glBind{n, fmt.Sprintf("(sliceTo %s %s)", b, g.toInt(g.expr(x.High, bs), g.typeOf(x.High))), false})
		case x.High == nil:
			*bs = append(*bs, glBind{n, fmt.Sprintf("(sliceFrom %s %s)", b, g.toInt(g.expr(x.Low, bs), g.typeOf(x.Low))), false})
		default:
			lo := g.toInt(g.expr(x.Low, bs), g.typeOf(x.Low))
			hi := g.toInt(g.expr(x.High, bs), g.typeOf(x.High))
			*bs = append(*bs, glBind{n, fmt.Sprintf("(slice %s %s %s)", b, lo, hi), false})
		}
		return n
	case *ast.CompositeLit:
		return g.composite(x, bs)
	case *ast.CallExpr:
		return g.call(x, bs)
	}
	g.bad(e.Pos(), "expression %T", e)
	return "sorryExpr"
}

// fieldPath: ".f" or, for a field promoted from embedded structs, ".Embedded.f"
func (g *gl) fieldPath(sel *types.Selection) string {
	t := sel.Recv()
	out := ""
	for _, i := range sel.Index() {
		if p, ok := t.(*types.Pointer); ok {
			t = p.Elem()
		}
		st := t.Underlying().(*types.Struct)
		f := st.Field(i)
		out += "." + glField(f.Name())
		t = f.Type()
	}
	return out
}

// a package-level variable: only error sentinels are in the fragment
func (g *gl) pkgVar(v *types.Var, pos token.Pos) string {
	if g.leanType(v.Type()) == "GoErr" {
		return fmt.Sprintf("(some %q : GoErr)", v.Name())
	}
	g.bad(pos, "package-level variable %s", v.Name())
	return "sorryVar"
}

// an index / length of any integer type as Int
func (g *gl) toInt(term string, t types.Type) string {
	lt := g.leanType(t)
	if lt == "Int" {
		return term
	}
	if glWidth(lt) > 0 {
		return "(Int.ofNat " + term + ".toNat)"
	}
	return term
}

func (g *gl) binary(x *ast.BinaryExpr, bs *[]glBind) string {
	lt := g.leanType(g.typeOf(x.X))
	if x.Op == token.LAND || x.Op == token.LOR {
		a := g.expr(x.X, bs)
		var rb []glBind
		b := g.expr(x.Y, &rb)
		op := "&&"
		if x.Op == token.LOR {
			op = "||"
		}
		if len(rb) == 0 {
			return "(" + a + " " + op + " " + b + ")"
		}
		// the right operand is evaluated only when needed (it may panic)
		n := g.fresh("c")
		if x.Op == token.LAND {
			*bs = append(*bs, glBind{n, fmt.Sprintf("(if %s then %s else X.ok false)", a, glWrap(rb, "X.ok "+b)), false})
		} else {
			*bs = append(*bs, glBind{n, fmt.Sprintf("(if %s then X.ok true else %s)", a, glWrap(rb, "X.ok "+b)), false})
		}
		return n
	}
	a := g.expr(x.X, bs)
	b := g.expr(x.Y, bs)
	if x.Op == token.SHL || x.Op == token.SHR {
		w := glWidth(lt)
		if w == 0 {
			g.bad(x.Pos(), "shift of %s", lt)
			return a
		}
		if tv := g.info().Types[x.Y]; tv.Value != nil {
			k, _ := constant.Int64Val(constant.ToInt(tv.Value))
			if k >= int64(w) {
				return fmt.Sprintf("(0 : %s)", lt)
			}
			op := "<<<"
			if x.Op == token.SHR {
				op = ">>>"
			}
			return fmt.Sprintf("(%s %s (%d : %s))", a, op, k, lt)
		}
		yt := g.leanType(g.typeOf(x.Y))
		if glWidth(yt) == 0 {
			g.bad(x.Pos(), "shift by a signed non-constant count")
			return a
		}
		fn := "shl"
		if x.Op == token.SHR {
			fn = "shr"
		}
		return fmt.Sprintf("(%s%d %s %s.toNat)", fn, w, a, b)
	}
	switch x.Op {
	case token.EQL:
		if t, ok := g.typeOf(x.X).Underlying().(*types.Slice); ok && t != nil { // x == nil
			return "(" + g.nilSide(x, bs) + ".isEmpty)"
		}
		if lt == "GoErr" {
			return "(" + g.errSide(x, bs) + ".isNone)"
		}
		return "(" + a + " == " + b + ")"
	case token.NEQ:
		if _, ok := g.typeOf(x.X).Underlying().(*types.Slice); ok {
			return "(!" + g.nilSide(x, bs) + ".isEmpty)"
		}
		if lt == "GoErr" {
			return "(" + g.errSide(x, bs) + ".isSome)"
		}
		return "(" + a + " != " + b + ")"
	case token.LSS, token.LEQ, token.GTR, token.GEQ:
		op := map[token.Token]string{token.LSS: "<", token.LEQ: "≤", token.GTR: ">", token.GEQ: "≥"}[x.Op]
		return "(decide (" + a + " " + op + " " + b + "))"
	}
	if lt == "Int" {
		switch x.Op {
		case token.ADD, token.SUB, token.MUL:
			return "(" + a + " " + x.Op.String() + " " + b + ")"
		case token.QUO, token.REM:
			fnP, fnM := "Int.tdiv", "idiv"
			if x.Op == token.REM {
				fnP, fnM = "Int.tmod", "imod"
			}
			if tv := g.info().Types[x.Y]; tv.Value != nil && constant.Sign(tv.Value) != 0 {
				return fmt.Sprintf("(%s %s %s)", fnP, a, b)
			}
			n := g.fresh("t")
			*bs = append(*bs, glBind{n, fmt.Sprintf("(%s %s %s)", fnM, a, b), false})
			return n
		}
	}
	if glWidth(lt) > 0 {
		switch x.Op {
		case token.ADD, token.SUB, token.MUL:
			return "(" + a + " " + x.Op.String() + " " + b + ")"
		case token.AND:
			return "(" + a + " &&& " + b + ")"
		case token.OR:
			return "(" + a + " ||| " + b + ")"
		case token.XOR:
			return "(" + a + " ^^^ " + b + ")"
		case token.AND_NOT:
			return "(" + a + " &&& ~~~" + b + ")"
		case token.QUO, token.REM:
			if tv := g.info().Types[x.Y]; tv.Value != nil && constant.Sign(tv.Value) != 0 {
				op := "/"
				if x.Op == token.REM {
					op = "%"
				}
				return "(" + a + " " + op + " " + b + ")"
			}
		}
	}
	if lt == "Bytes" && x.Op == token.ADD {
		return "(" + a + " ++ " + b + ")"
	}
	g.bad(x.Pos(), "binary %s on %s", x.Op, lt)
	return a
}

func (g *gl) nilSide(x *ast.BinaryExpr, bs *[]glBind) string {
	if id, ok := ast.Unparen(x.Y).(*ast.Ident); ok && id.Name == "nil" {
		return g.expr(x.X, bs)
	}
	if id, ok := ast.Unparen(x.X).(*ast.Ident); ok && id.Name == "nil" {
		return g.expr(x.Y, bs)
	}
	g.bad(x.Pos(), "comparison of slices")
	return "[]"
}

func (g *gl) errSide(x *ast.BinaryExpr, bs *[]glBind) string {
	if id, ok := ast.Unparen(x.Y).(*ast.Ident); ok && id.Name == "nil" {
		return g.expr(x.X, bs)
	}
	if id, ok := ast.Unparen(x.X).(*ast.Ident); ok && id.Name == "nil" {
		return g.expr(x.Y, bs)
	}
	g.bad(x.Pos(), "comparison of two error values")
	return "none"
}

func (g *gl) composite(x *ast.CompositeLit, bs *[]glBind) string {
	t := g.typeOf(x)
	lt := g.leanType(t)
	if lt == "Bytes" {
		var xs []string
		for _, el := range x.Elts {
			if _, ok := el.(*ast.KeyValueExpr); ok {
				g.bad(x.Pos(), "keyed slice literal")
				continue
			}
			xs = append(xs, g.expr(el, bs))
		}
		return "([" + strings.Join(xs, ", ") + "] : Bytes)"
	}
	if strings.HasPrefix(lt, "(List ") { // []T{a, b}: a list of values of the fragment
		var xs []string
		for _, el := range x.Elts {
			if _, ok := el.(*ast.KeyValueExpr); ok {
				g.bad(x.Pos(), "keyed slice literal")
				continue
			}
			xs = append(xs, g.expr(el, bs))
		}
		return "([" + strings.Join(xs, ", ") + "] : " + lt[1:len(lt)-1] + ")"
	}
	if p, ok := t.(*types.Pointer); ok {
		t = p.Elem()
	}
	{
		if _, ok := t.Underlying().(*types.Struct); ok && lt != "" {
			var fs []string
			for _, el := range x.Elts {
				kv, ok := el.(*ast.KeyValueExpr)
				if !ok {
					g.bad(x.Pos(), "positional struct literal")
					continue
				}
				var ft types.Type
				st := t.Underlying().(*types.Struct)
				for i := 0; i < st.NumFields(); i++ {
					if st.Field(i).Name() == kv.Key.(*ast.Ident).Name {
						ft = st.Field(i).Type()
					}
				}
				if ft == nil || g.leanType(ft) == "" {
					g.bad(kv.Pos(), "field %s of a literal has a type outside the fragment", kv.Key.(*ast.Ident).Name)
					continue
				}
				fs = append(fs, fmt.Sprintf("%s := %s", glField(kv.Key.(*ast.Ident).Name), g.valueFor(kv.Value, ft, bs)))
			}
			if len(fs) == 0 {
				return lt + ".zero"
			}
			return "{ " + lt + ".zero with " + strings.Join(fs, ", ") + " }"
		}
	}
	g.bad(x.Pos(), "composite literal of %s", t)
	return "sorryLit"
}

// conversion T(x)
func (g *gl) convert(to types.Type, arg ast.Expr, bs *[]glBind, pos token.Pos) string {
	arg = ast.Unparen(arg)
	lt := g.leanType(to)
	// byte(x & 0xFF) = byte(x)
	if lt == "UInt8" {
		if be, ok := arg.(*ast.BinaryExpr); ok && be.Op == token.AND {
			if tv := g.info().Types[be.Y]; tv.Value != nil && tv.Value.ExactString() == "255" {
				arg = ast.Unparen(be.X)
			}
		}
	}
	a := g.expr(arg, bs)
	from := g.leanType(g.typeOf(arg))
	switch {
	case lt == from:
		return a
	case glWidth(lt) > 0 && glWidth(from) > 0:
		return fmt.Sprintf("%s.to%s", atom(a), lt)
	case lt == "Int" && glWidth(from) > 0:
		return "(Int.ofNat " + atom(a) + ".toNat)"
	case glWidth(lt) > 0 && from == "Int":
		return fmt.Sprintf("(%s.ofInt %s)", lt, a)
	}
	g.bad(pos, "conversion %s -> %s", from, lt)
	return a
}

func atom(s string) string {
	if strings.HasPrefix(s, "(") || !strings.ContainsAny(s, " ") {
		return s
	}
	return "(" + s + ")"
}
