package main

// golean, part 5: if / switch / for / range, join definitions, functions

import (
	"fmt"
	"go/ast"
	"go/token"
	"go/types"
	"strings"
)

const glInlineLimit = 240 // continuations longer than this are lifted into a join definition when used twice

// share makes a continuation usable several times: short ones are duplicated, long ones become a definition over the
// variables in scope (never inside a loop: the definition would have to call the loop it is part of)
func (g *gl) share(c *glCtx, k glK) string {
	body := k(c)
	if c.inLoop || len(body) <= glInlineLimit {
		return body
	}
	g.jn++
	name := fmt.Sprintf("%s_j%d", g.cur.lean, g.jn)
	decl, args := g.params(c.scope)
	fmt.Fprintf(g.fb, "def %s (fuel : Nat) %s : X %s :=\n %s\n\n", name, decl, g.cur.resT, body)
	return strings.TrimSpace("(" + name + " fuel " + args + ")")
}

// merge: translate `run` (a compound statement without exits) as a computation yielding the variables it assigns
func (g *gl) merge(n ast.Node, c *glCtx, k glK, run func(c *glCtx, done glK) string) string {
	as := g.assigned(n, c.scope)
	var names, ts []string
	for _, v := range as {
		names = append(names, g.vname(v))
		ts = append(ts, g.leanType(v.Type()))
	}
	inner := *c
	inner.ret, inner.brk, inner.cont = nil, "", ""
	comp := run(&inner, func(_ *glCtx) string { return "(X.ok " + g.tuple(names) + ")" })
	m := g.fresh("m")
	var bs []glBind
	bs = append(bs, glBind{m, "(" + comp + " : X " + g.tupleType(ts) + ")", false})
	for i, v := range as {
		bs = append(bs, glBind{g.vname(v) + " : " + g.leanType(v.Type()), tupleProj(m, len(as), i), true})
	}
	return glWrap(bs, k(c))
}

func (g *gl) ifStmt(x *ast.IfStmt, c *glCtx, k glK) string {
	outer := c
	exits := hasReturn(x) || hasLoopExit(x)
	run := func(c *glCtx, done glK) string {
		body := func(c *glCtx) string {
			var bs []glBind
			cond := g.expr(g.nnf(x.Cond, false), &bs)
			thenT := g.block(x.Body, c, done)
			elseT := ""
			switch e := x.Else.(type) {
			case nil:
				elseT = done(c)
			case *ast.BlockStmt:
				elseT = g.block(e, c, done)
			case *ast.IfStmt:
				elseT = g.stmt(e, c, func(_ *glCtx) string { return done(c) })
			}
			return glWrap(bs, fmt.Sprintf("(if %s then\n %s\n else\n %s)", cond, thenT, elseT))
		}
		if x.Init != nil {
			return g.stmt(x.Init, c, body)
		}
		return body(c)
	}
	if !exits {
		return g.merge(x, c, k, run)
	}
	rest := ""
	once := func(_ *glCtx) string {
		if rest == "" {
			rest = g.share(outer, k)
		}
		return rest
	}
	return run(c, once)
}

// nnf pushes negations inwards so that `!(a && b)` and `!a || !b` translate to the same term
func (g *gl) nnf(e ast.Expr, neg bool) ast.Expr {
	e = ast.Unparen(e)
	mk := func(x ast.Expr, op token.Token, y ast.Expr, like ast.Expr) ast.Expr {
		be := &ast.BinaryExpr{X: x, Op: op, Y: y, OpPos: like.Pos()}
		g.info().Types[be] = types.TypeAndValue{Type: types.Typ[types.Bool]}
		return be
	}
	switch x := e.(type) {
	case *ast.UnaryExpr:
		if x.Op == token.NOT {
			return g.nnf(x.X, !neg)
		}
	case *ast.BinaryExpr:
		switch x.Op {
		case token.LAND, token.LOR:
			op := x.Op
			if neg {
				op = map[token.Token]token.Token{token.LAND: token.LOR, token.LOR: token.LAND}[op]
			}
			return mk(g.nnf(x.X, neg), op, g.nnf(x.Y, neg), x)
		case token.EQL, token.NEQ, token.LSS, token.LEQ, token.GTR, token.GEQ:
			if neg {
				flip := map[token.Token]token.Token{token.EQL: token.NEQ, token.NEQ: token.EQL, token.LSS: token.GEQ, token.GEQ: token.LSS, token.GTR: token.LEQ, token.LEQ: token.GTR}
				return mk(x.X, flip[x.Op], x.Y, x)
			}
			return x
		}
	}
	if neg {
		ue := &ast.UnaryExpr{Op: token.NOT, X: e, OpPos: e.Pos()}
		g.info().Types[ue] = types.TypeAndValue{Type: types.Typ[types.Bool]}
		return ue
	}
	return e
}

// switch → chain of ifs (no fallthrough)
func (g *gl) switchStmt(x *ast.SwitchStmt, c *glCtx, k glK) string {
	outer := c
	var deflt *ast.CaseClause
	var cases []*ast.CaseClause
	for _, s := range x.Body.List {
		cc := s.(*ast.CaseClause)
		for _, b := range cc.Body {
			if br, ok := b.(*ast.BranchStmt); ok && br.Tok == token.FALLTHROUGH {
				g.bad(br.Pos(), "fallthrough")
			}
		}
		if cc.List == nil {
			deflt = cc
		} else {
			cases = append(cases, cc)
		}
	}
	// a `break` directly inside a switch leaves the switch; not in the fragment (a loop's break would be captured)
	for _, s := range x.Body.List {
		for _, b := range s.(*ast.CaseClause).Body {
			ast.Inspect(b, func(n ast.Node) bool {
				switch y := n.(type) {
				case *ast.ForStmt, *ast.RangeStmt, *ast.FuncLit:
					return false
				case *ast.BranchStmt:
					if y.Tok == token.BREAK {
						g.bad(y.Pos(), "break inside switch")
					}
				}
				return true
			})
		}
	}
	exits := hasReturn(x) || hasLoopExit(x)
	run := func(c *glCtx, done glK) string {
		body := func(c *glCtx) string {
			var bs []glBind
			tag := ""
			if x.Tag != nil {
				tag = g.expr(x.Tag, &bs)
			}
			var chain func(i int) string
			chain = func(i int) string {
				if i == len(cases) {
					if deflt != nil {
						return g.stmts(deflt.Body, c, func(_ *glCtx) string { return done(c) })
					}
					return done(c)
				}
				var cb []glBind
				var conds []string
				for _, e := range cases[i].List {
					if x.Tag != nil {
						conds = append(conds, "("+tag+" == "+g.expr(e, &cb)+")")
					} else {
						conds = append(conds, g.expr(g.nnf(e, false), &cb))
					}
				}
				cond := strings.Join(conds, " || ")
				if len(conds) > 1 {
					cond = "(" + cond + ")"
				}
				thenT := g.stmts(cases[i].Body, c, func(_ *glCtx) string { return done(c) })
				return glWrap(cb, fmt.Sprintf("(if %s then\n %s\n else\n %s)", cond, thenT, chain(i+1)))
			}
			return glWrap(bs, chain(0))
		}
		if x.Init != nil {
			return g.stmt(x.Init, c, body)
		}
		return body(c)
	}
	if !exits {
		return g.merge(x, c, k, run)
	}
	rest := ""
	return run(c, func(_ *glCtx) string {
		if rest == "" {
			rest = g.share(outer, k)
		}
		return rest
	})
}

func (g *gl) forStmt(init ast.Stmt, cond ast.Expr, post ast.Stmt, body *ast.BlockStmt, c *glCtx, k glK, node ast.Node) string {
	outer := c
	cps := hasReturn(body)
	if c.inLoop && cps {
		g.bad(node.Pos(), "a loop with a return inside another loop")
	}
	g.jn++
	name := fmt.Sprintf("%s_loop%d", g.cur.lean, g.jn)
	mk := func(c *glCtx) string { // c: scope including the variables of init
		decl, args := g.params(c.scope)
		call := "(" + strings.TrimSpace(name+" fuel "+args) + ")"
		var resT, exit string
		var as []*types.Var
		if cps {
			resT = g.cur.resT
			exit = g.share(outer, k) // after the loop (also the target of break)
		} else {
			as = g.assigned(node, outer.scope)
			var names, ts []string
			for _, v := range as {
				names = append(names, g.vname(v))
				ts = append(ts, g.leanType(v.Type()))
			}
			resT = g.tupleType(ts)
			exit = "(X.ok " + g.tuple(names) + ")"
		}
		in := *c
		in.inLoop = true
		in.brk = exit
		if !cps {
			in.ret = nil
		}
		next := call
		if post != nil {
			next = g.stmt(post, &in, func(_ *glCtx) string { return call })
		}
		in.cont = next
		bodyT := g.block(body, &in, func(_ *glCtx) string { return next })
		var cb []glBind
		condT := "true"
		if cond != nil {
			condT = g.expr(g.nnf(cond, false), &cb)
		}
		fmt.Fprintf(g.fb, "def %s (fuel : Nat) %s : X %s :=\n match fuel with\n | 0 => X.fuel\n | fuel + 1 =>\n %s\n\n",
			name, decl, resT, glWrap(cb, fmt.Sprintf("(if %s then\n %s\n else\n %s)", condT, bodyT, exit)))
		if cps {
			return call
		}
		m := g.fresh("m")
		var bs []glBind
		bs = append(bs, glBind{m, call, false})
		for i, v := range as {
			bs = append(bs, glBind{g.vname(v) + " : " + g.leanType(v.Type()), tupleProj(m, len(as), i), true})
		}
		return glWrap(bs, k(outer))
	}
	if init != nil {
		return g.stmt(init, c, mk)
	}
	return mk(c)
}

// for i, v := range xs  →  index loop over a copy of the slice header
func (g *gl) rangeStmt(x *ast.RangeStmt, c *glCtx, k glK) string {
	if x.Tok != token.DEFINE && x.Key != nil {
		g.bad(x.Pos(), "range assigning to existing variables")
		return k(c)
	}
	lt := g.leanType(g.typeOf(x.X))
	elemT, acc := "UInt8", "idx"
	if strings.HasPrefix(lt, "(List ") {
		elemT, acc = strings.TrimSuffix(strings.TrimPrefix(lt, "(List "), ")"), "lidx"
	} else if lt != "Bytes" {
		g.bad(x.Pos(), "range over %s", g.typeOf(x.X))
		return k(c)
	}
	lenOf := func(v string) string {
		if acc == "idx" {
			return "(len " + v + ")"
		}
		return "(Int.ofNat " + v + ".length)"
	}
	var bs []glBind
	xs := g.expr(x.X, &bs)
	// hidden variables: the slice and the index
	pkg := g.cur.pkg.Types
	hs := types.NewVar(x.Pos(), pkg, "rng", g.typeOf(x.X))
	hi := types.NewVar(x.Pos(), pkg, "ri", types.Typ[types.Int])
	bs = append(bs, glBind{g.vname(hs) + " : " + strings.Trim(lt, "()"), xs, true}, glBind{g.vname(hi) + " : Int", "(0 : Int)", true})
	c2 := c.with(hs, hi)
	var keyV, valV *types.Var
	if id, ok := x.Key.(*ast.Ident); ok && id.Name != "_" {
		keyV, _ = g.info().Defs[id].(*types.Var)
	}
	if id, ok := x.Value.(*ast.Ident); ok && id.Name != "_" {
		valV, _ = g.info().Defs[id].(*types.Var)
	}
	// synthesize: for ; ri < len(rng); ri++ { key := ri; val := rng[ri]; body }
	cps := hasReturn(x.Body)
	outer := c
	g.jn++
	name := fmt.Sprintf("%s_loop%d", g.cur.lean, g.jn)
	decl, args := g.params(c2.scope)
	_ = args
	var as []*types.Var
	var resT, exit string
	if cps {
		resT = g.cur.resT
		exit = g.share(outer, k)
	} else {
		as = g.assigned(x.Body, outer.scope)
		var names, ts []string
		for _, v := range as {
			names = append(names, g.vname(v))
			ts = append(ts, g.leanType(v.Type()))
		}
		resT = g.tupleType(ts)
		exit = "(X.ok " + g.tuple(names) + ")"
	}
	callWith := func(idx string) string {
		var a []string
		for _, v := range c2.scope {
			if v == hi {
				a = append(a, idx)
			} else {
				a = append(a, g.vname(v))
			}
		}
		return "(" + name + " fuel " + strings.Join(a, " ") + ")"
	}
	next := callWith("(" + g.vname(hi) + " + (1 : Int))")
	in := *c2
	in.inLoop, in.brk, in.cont = true, exit, next
	if !cps {
		in.ret = nil
	}
	var ib []glBind
	inner := &in
	if keyV != nil {
		ib = append(ib, glBind{g.vname(keyV) + " : Int", g.vname(hi), true})
		inner = inner.with(keyV)
	}
	if valV != nil {
		ib = append(ib, glBind{g.vname(valV) + " : " + elemT, fmt.Sprintf("(%s %s %s)", acc, g.vname(hs), g.vname(hi)), false})
		inner = inner.with(valV)
	}
	bodyT := glWrap(ib, g.block(x.Body, inner, func(_ *glCtx) string { return next }))
	fmt.Fprintf(g.fb, "def %s (fuel : Nat) %s : X %s :=\n match fuel with\n | 0 => X.fuel\n | fuel + 1 =>\n (if (decide (%s < %s)) then\n %s\n else\n %s)\n\n",
		name, decl, resT, g.vname(hi), lenOf(g.vname(hs)), bodyT, exit)
	call := callWith(g.vname(hi))
	if cps {
		return glWrap(bs, call)
	}
	m := g.fresh("m")
	bs = append(bs, glBind{m, call, false})
	for i, v := range as {
		bs = append(bs, glBind{g.vname(v) + " : " + g.leanType(v.Type()), tupleProj(m, len(as), i), true})
	}
	return glWrap(bs, k(outer))
}

func (g *gl) translateFn(fn *glFn) bool {
	if fn.done {
		return fn.ok
	}
	if fn.busy {
		g.bad(fn.decl.Pos(), "recursion through %s", fn.obj.Name())
		return false
	}
	fn.busy = true
	saved, savedJ, savedFb := g.cur, g.jn, g.fb
	g.cur, g.jn, g.fb = fn, 0, &strings.Builder{}
	nBad := len(g.unsupported)
	sig := fn.obj.Type().(*types.Signature)
	fn.lean = shortPkg(fn.pkg.PkgPath) + "_" + fn.obj.Name()
	var scope []*types.Var
	var resTs []string
	if sig.Recv() != nil {
		fn.recv = sig.Recv()
		rt := sig.Recv().Type()
		if p, ok := rt.(*types.Pointer); ok {
			// a pointer receiver is passed back only when the method (or one it calls on the receiver) assigns to it
			fn.recvPtr = len(g.assigned(fn.decl.Body, []*types.Var{fn.recv})) > 0
			rt = p.Elem()
		}
		fn.lean = shortPkg(fn.pkg.PkgPath) + "_" + rt.(*types.Named).Obj().Name() + "_" + fn.obj.Name()
		scope = append(scope, fn.recv)
		if fn.recvPtr {
			resTs = append(resTs, g.leanType(fn.recv.Type()))
		}
	}
	for i := 0; i < sig.Params().Len(); i++ {
		v := sig.Params().At(i)
		if g.leanType(v.Type()) == "" {
			g.bad(fn.decl.Pos(), "parameter %s of type %s", v.Name(), v.Type())
		}
		scope = append(scope, v)
	}
	fn.results = nil
	var resOnly []string
	for i := 0; i < sig.Results().Len(); i++ {
		v := sig.Results().At(i)
		if g.leanType(v.Type()) == "" {
			g.bad(fn.decl.Pos(), "result of type %s", v.Type())
		}
		fn.results = append(fn.results, v)
		resOnly = append(resOnly, g.leanType(v.Type()))
	}
	if fn.recvPtr && len(resOnly) > 0 {
		resTs = append(resTs, g.tupleType(resOnly))
	} else {
		resTs = append(resTs, resOnly...)
	}
	fn.resT = g.tupleType(resTs)
	decl, _ := g.params(scope)
	c := &glCtx{scope: scope}
	c.ret = func(vals []string) string {
		var out []string
		if fn.recvPtr {
			out = append(out, g.vname(fn.recv))
			if len(vals) > 0 {
				out = append(out, g.tuple(vals))
			}
		} else {
			out = vals
		}
		return "(X.ok " + g.tuple(out) + ")"
	}
	var pre []glBind
	named := sig.Results().Len() > 0 && sig.Results().At(0).Name() != ""
	if named {
		for _, r := range fn.results {
			pre = append(pre, glBind{g.vname(r) + " : " + g.leanType(r.Type()), g.zero(r.Type()), true})
			c = c.with(r)
		}
	}
	body := g.block(fn.decl.Body, c, func(c2 *glCtx) string {
		// falling off the end: only for functions without results (or with named ones)
		var vals []string
		if named {
			for _, r := range fn.results {
				vals = append(vals, g.vname(r))
			}
		} else if len(fn.results) > 0 {
			return "X.panic" // unreachable in well-typed Go (missing return is a compile error)
		}
		return c.ret(vals)
	})
	g.checkAliasing(fn)
	fn.ok = len(g.unsupported) == nBad
	if fn.ok {
		fmt.Fprintf(g.fb, "/-- `%s` (%s) -/\ndef %s (fuel : Nat) %s : X %s :=\n %s\n\n", fn.obj.FullName(),
			fn.pkg.Fset.Position(fn.decl.Pos()).Filename[strings.Index(fn.pkg.Fset.Position(fn.decl.Pos()).Filename, "/"+shortPkg(fn.pkg.PkgPath)+"/")+1:],
			fn.lean, decl, fn.resT, glWrap(pre, body))
	}
	if fn.ok {
		g.out.WriteString(g.fb.String()) // a function that failed leaves nothing behind (not even its loops and join points)
	}
	fn.done, fn.busy = true, false
	g.cur, g.jn, g.fb = saved, savedJ, savedFb
	return fn.ok
}

// checkAliasing: value semantics are only right when no slice is written through while another name for the same
// memory is still in use. A variable that is the target of an element write (`b[i] = v`, PutUintN(b[..]), copy(b, …))
// must be created in the function by make / a literal, and must not be sliced into another variable or field.
func (g *gl) checkAliasing(fn *glFn) {
	g.checkPointerSharing(fn)
	written := map[*types.Var]token.Pos{}
	root := func(e ast.Expr) *types.Var {
		for {
			switch x := ast.Unparen(e).(type) {
			case *ast.Ident:
				v, _ := g.info().ObjectOf(x).(*types.Var)
				return v
			case *ast.SliceExpr:
				e = x.X
			case *ast.IndexExpr:
				e = x.X
			default:
				return nil
			}
		}
	}
	ast.Inspect(fn.decl.Body, func(n ast.Node) bool {
		switch x := n.(type) {
		case *ast.AssignStmt:
			for _, l := range x.Lhs {
				if ie, ok := ast.Unparen(l).(*ast.IndexExpr); ok {
					if v := root(ie.X); v != nil {
						written[v] = ie.Pos()
					}
				}
			}
		case *ast.CallExpr:
			name, _ := g.calleeName(x)
			if strings.HasPrefix(name, "binary.bigEndian.Put") {
				if v := root(x.Args[0]); v != nil {
					written[v] = x.Pos()
				}
			}
			if id, ok := ast.Unparen(x.Fun).(*ast.Ident); ok && id.Name == "copy" && len(x.Args) == 2 {
				if v := root(x.Args[0]); v != nil {
					written[v] = x.Pos()
				} else {
					g.bad(x.Pos(), "copy into something that is not a local slice")
				}
			}
		}
		return true
	})
	if len(written) == 0 {
		return
	}
	ast.Inspect(fn.decl.Body, func(n ast.Node) bool {
		as, ok := n.(*ast.AssignStmt)
		if !ok {
			return true
		}
		for i, r := range as.Rhs {
			r = ast.Unparen(r)
			// who := w[..]  /  x.f = w   (another name for written memory)
			if se, ok := r.(*ast.SliceExpr); ok {
				if v := root(se.X); v != nil {
					if _, w := written[v]; w {
						g.bad(as.Pos(), "slice of %s, which is written through, is stored", v.Name())
					}
				}
			}
			if id, ok := r.(*ast.Ident); ok && i < len(as.Lhs) {
				if v, _ := g.info().ObjectOf(id).(*types.Var); v != nil {
					if _, w := written[v]; w {
						if l, ok := ast.Unparen(as.Lhs[i]).(*ast.Ident); !ok || g.info().ObjectOf(l) != v {
							g.bad(as.Pos(), "%s, which is written through, gets a second name", v.Name())
						}
					}
				}
			}
			// w must start as fresh memory: w := make(..) / literal / append(w, ..) / call result
			if i < len(as.Lhs) {
				if l, ok := ast.Unparen(as.Lhs[i]).(*ast.Ident); ok {
					if v, _ := g.info().ObjectOf(l).(*types.Var); v != nil {
						if _, w := written[v]; w {
							switch y := r.(type) {
							case *ast.CallExpr, *ast.CompositeLit:
								_ = y
							default:
								g.bad(as.Pos(), "%s is written through but does not start as fresh memory", v.Name())
							}
						}
					}
				}
			}
		}
		return true
	})
	sig := fn.obj.Type().(*types.Signature)
	for i := 0; i < sig.Params().Len(); i++ {
		if p, w := written[sig.Params().At(i)]; w {
			g.bad(p, "parameter %s is written through (caller-visible)", sig.Params().At(i).Name())
		}
	}
}

// checkPointerSharing: a pointer to a struct is translated as the struct's value. That is only right while the pointer
// has one holder: once a local pointer variable has been stored somewhere (a composite literal, an argument of a call
// other than a method call on it, another variable or field), it must not be written through any more — neither later
// in the function nor, when the store is inside a loop and the variable is declared outside it, anywhere in that loop
// (the next iteration would change what the previous one stored).
func (g *gl) checkPointerSharing(fn *glFn) {
	isPtrLocal := func(id *ast.Ident) *types.Var {
		v, _ := g.info().ObjectOf(id).(*types.Var)
		if v == nil || v.IsField() || v.Pkg() == nil || v.Parent() == v.Pkg().Scope() {
			return nil
		}
		if p, ok := v.Type().(*types.Pointer); ok {
			if _, ok := p.Elem().Underlying().(*types.Struct); ok && !isBytesBuffer(v.Type()) {
				return v
			}
		}
		return nil
	}
	stores := map[*types.Var][]token.Pos{}
	muts := map[*types.Var][]token.Pos{}
	noteStore := func(e ast.Expr) {
		if id, ok := ast.Unparen(e).(*ast.Ident); ok {
			if v := isPtrLocal(id); v != nil && v != fn.recv {
				stores[v] = append(stores[v], id.Pos())
			}
		}
	}
	rootIdent := func(e ast.Expr) *ast.Ident {
		for {
			switch x := ast.Unparen(e).(type) {
			case *ast.Ident:
				return x
			case *ast.SelectorExpr:
				e = x.X
			case *ast.StarExpr:
				e = x.X
			case *ast.IndexExpr:
				e = x.X
			default:
				return nil
			}
		}
	}
	ast.Inspect(fn.decl.Body, func(n ast.Node) bool {
		switch x := n.(type) {
		case *ast.KeyValueExpr:
			noteStore(x.Value)
		case *ast.CompositeLit:
			for _, el := range x.Elts {
				noteStore(el)
			}
		case *ast.CallExpr:
			if tv, ok := g.info().Types[x.Fun]; ok && tv.IsType() {
				return true
			}
			if id, ok := ast.Unparen(x.Fun).(*ast.Ident); ok {
				if _, ok := g.info().Uses[id].(*types.Builtin); ok && id.Name != "append" {
					return true
				}
			}
			if !g.isLogging(x) {
				for _, a := range x.Args {
					noteStore(a)
				}
			}
			// a pointer-receiver method that assigns to its receiver writes through the pointer
			if _, f := g.calleeName(x); f != nil {
				if sig := f.Type().(*types.Signature); sig.Recv() != nil {
					if _, ok := sig.Recv().Type().(*types.Pointer); ok {
						if t := g.fns[f]; t == nil || !t.done || t.recvPtr {
							if id := rootIdent(recvExpr(x)); id != nil {
								if v := isPtrLocal(id); v != nil {
									muts[v] = append(muts[v], x.Pos())
								}
							}
						}
					}
				}
			}
		case *ast.AssignStmt:
			for i, l := range x.Lhs {
				l = ast.Unparen(l)
				if _, plain := l.(*ast.Ident); !plain {
					if id := rootIdent(l); id != nil {
						if v := isPtrLocal(id); v != nil {
							muts[v] = append(muts[v], l.Pos())
						}
					}
					if i < len(x.Rhs) {
						noteStore(x.Rhs[i])
					}
				} else if i < len(x.Rhs) && len(x.Lhs) == len(x.Rhs) {
					// q := p  (a second name for the same struct)
					if rid, ok := ast.Unparen(x.Rhs[i]).(*ast.Ident); ok && isPtrLocal(rid) != nil && g.info().ObjectOf(rid) != g.info().ObjectOf(l.(*ast.Ident)) {
						noteStore(x.Rhs[i])
					}
				}
			}
		case *ast.IncDecStmt:
			if _, plain := ast.Unparen(x.X).(*ast.Ident); !plain {
				if id := rootIdent(x.X); id != nil {
					if v := isPtrLocal(id); v != nil {
						muts[v] = append(muts[v], x.Pos())
					}
				}
			}
		}
		return true
	})
	var loops []*ast.BlockStmt
	ast.Inspect(fn.decl.Body, func(n ast.Node) bool {
		switch x := n.(type) {
		case *ast.ForStmt:
			loops = append(loops, x.Body)
		case *ast.RangeStmt:
			loops = append(loops, x.Body)
		}
		return true
	})
	for v, ss := range stores {
		for _, s := range ss {
			for _, m := range muts[v] {
				bad := m > s
				for _, lb := range loops {
					if lb.Pos() <= s && s < lb.End() && lb.Pos() <= m && m < lb.End() && !(lb.Pos() <= v.Pos() && v.Pos() < lb.End()) {
						bad = true
					}
				}
				if bad {
					g.bad(m, "%s points to a struct that has been stored elsewhere and is written through afterwards (shared pointer)", v.Name())
				}
			}
		}
	}
}
