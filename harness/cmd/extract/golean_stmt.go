package main

// golean, part 4: statements (continuation-passing translation) and functions

import (
	"fmt"
	"go/ast"
	"go/token"
	"go/types"
	"strings"
)

type glCtx struct {
	scope  []*types.Var
	brk    string // Lean term for `break`, "" when not allowed
	cont   string
	inLoop bool
	ret    func(vals []string) string // term for `return vals`; nil when a return is not allowed here
}

type glK func(c *glCtx) string

func (c *glCtx) with(vs ...*types.Var) *glCtx {
	d := *c
	d.scope = append(append([]*types.Var{}, c.scope...), vs...)
	return &d
}

func (g *gl) tuple(xs []string) string {
	switch len(xs) {
	case 0:
		return "()"
	case 1:
		return xs[0]
	}
	return "(" + strings.Join(xs, ", ") + ")"
}

func (g *gl) tupleType(ts []string) string {
	switch len(ts) {
	case 0:
		return "Unit"
	case 1:
		return ts[0]
	}
	return "(" + strings.Join(ts, " × ") + ")"
}

// projections of an n-tuple bound to `m`
func tupleProj(m string, n, i int) string {
	if n == 1 {
		return m
	}
	s := m
	for k := 0; k < i; k++ {
		s += ".2"
	}
	if i < n-1 {
		s += ".1"
	}
	return s
}

func (g *gl) params(vs []*types.Var) (decl, args string) {
	var d, a []string
	for _, v := range vs {
		d = append(d, fmt.Sprintf("(%s : %s)", g.vname(v), g.leanType(v.Type())))
		a = append(a, g.vname(v))
	}
	return strings.Join(d, " "), strings.Join(a, " ")
}

// does the statement list contain a return (any depth) / a break or continue that leaves it?
func hasReturn(n ast.Node) bool {
	f := false
	ast.Inspect(n, func(m ast.Node) bool {
		switch m.(type) {
		case *ast.ReturnStmt:
			f = true
		case *ast.FuncLit:
			return false
		}
		return !f
	})
	return f
}

func hasLoopExit(n ast.Node) bool { // break/continue not enclosed by a loop inside n
	f := false
	var walk func(m ast.Node, inLoop, inSwitch bool)
	walk = func(m ast.Node, inLoop, inSwitch bool) {
		ast.Inspect(m, func(k ast.Node) bool {
			if k == nil || f {
				return false
			}
			switch x := k.(type) {
			case *ast.FuncLit:
				return false
			case *ast.ForStmt:
				if k != m {
					walk(x.Body, true, false)
					return false
				}
			case *ast.RangeStmt:
				if k != m {
					walk(x.Body, true, false)
					return false
				}
			case *ast.BranchStmt:
				if !inLoop {
					f = true
				}
			}
			return true
		})
	}
	walk(n, false, false)
	return f
}

// variables of `scope` that the node may assign
func (g *gl) assigned(n ast.Node, scope []*types.Var) []*types.Var {
	set := map[*types.Var]bool{}
	var root func(e ast.Expr) *types.Var
	root = func(e ast.Expr) *types.Var {
		switch x := ast.Unparen(e).(type) {
		case *ast.Ident:
			v, _ := g.info().ObjectOf(x).(*types.Var)
			return v
		case *ast.SelectorExpr:
			return root(x.X)
		case *ast.IndexExpr:
			return root(x.X)
		case *ast.SliceExpr:
			return root(x.X)
		case *ast.StarExpr:
			return root(x.X)
		}
		return nil
	}
	ast.Inspect(n, func(m ast.Node) bool {
		switch x := m.(type) {
		case *ast.FuncLit:
			return false
		case *ast.AssignStmt:
			for _, l := range x.Lhs {
				if v := root(l); v != nil {
					set[v] = true
				}
			}
		case *ast.IncDecStmt:
			if v := root(x.X); v != nil {
				set[v] = true
			}
		case *ast.RangeStmt:
			for _, l := range []ast.Expr{x.Key, x.Value} {
				if l != nil && x.Tok == token.ASSIGN {
					if v := root(l); v != nil {
						set[v] = true
					}
				}
			}
		case *ast.CallExpr:
			if id, ok := ast.Unparen(x.Fun).(*ast.Ident); ok && id.Name == "copy" && len(x.Args) == 2 {
				if v := root(x.Args[0]); v != nil {
					set[v] = true
				}
			}
			name, fn := g.calleeName(x)
			switch {
			case strings.HasPrefix(name, "bytes.Buffer.Write"), name == "bytes.Buffer.Reset":
				if v := root(recvExpr(x)); v != nil {
					set[v] = true
				}
			case strings.HasPrefix(name, "binary.bigEndian.Put"):
				if v := root(x.Args[0]); v != nil {
					set[v] = true
				}
			case fn != nil && fn.Type().(*types.Signature).Recv() != nil:
				if _, ok := fn.Type().(*types.Signature).Recv().Type().(*types.Pointer); ok && !isBytesBuffer(fn.Type().(*types.Signature).Recv().Type()) {
					if t := g.fns[fn]; t != nil && !t.busy && g.translateFn(t) && !t.recvPtr {
						break // the method is known not to assign to its receiver
					}
					if v := root(recvExpr(x)); v != nil {
						set[v] = true
					}
				}
			}
		}
		return true
	})
	var out []*types.Var
	for _, v := range scope {
		if set[v] {
			out = append(out, v)
		}
	}
	return out
}

func (g *gl) stmts(list []ast.Stmt, c *glCtx, k glK) string {
	if len(list) == 0 {
		return k(c)
	}
	return g.stmt(list[0], c, func(c2 *glCtx) string { return g.stmts(list[1:], c2, k) })
}

func (g *gl) block(b *ast.BlockStmt, c *glCtx, k glK) string {
	return g.stmts(b.List, c, func(_ *glCtx) string { return k(c) })
}

// assignment of `val` to the path `lhs`
func (g *gl) assignTo(lhs ast.Expr, val string, bs *[]glBind, c *glCtx) *glCtx {
	lhs = ast.Unparen(lhs)
	if id, ok := lhs.(*ast.Ident); ok {
		if id.Name == "_" {
			return c
		}
		if v, ok := g.info().Defs[id].(*types.Var); ok { // := declares
			*bs = append(*bs, glBind{g.vname(v) + " : " + g.leanType(v.Type()), val, true})
			if g.leanType(v.Type()) == "" {
				g.bad(id.Pos(), "variable %s of type %s", id.Name, v.Type())
			}
			return c.with(v)
		}
	}
	if ie, ok := lhs.(*ast.IndexExpr); ok { // b[i] = v
		b := g.expr(ie.X, bs)
		i := g.toInt(g.expr(ie.Index, bs), g.typeOf(ie.Index))
		n := g.fresh("t")
		*bs = append(*bs, glBind{n, fmt.Sprintf("(setIdx %s %s %s)", b, i, val), false})
		return g.assignTo(ie.X, n, bs, c)
	}
	v, nv := g.setPath(lhs, val)
	if v != nil {
		*bs = append(*bs, glBind{g.vname(v) + " : " + g.leanType(v.Type()), nv, true})
	}
	return c
}

func (g *gl) stmt(s ast.Stmt, c *glCtx, k glK) string {
	switch x := s.(type) {
	case *ast.EmptyStmt:
		return k(c)
	case *ast.BlockStmt:
		return g.block(x, c, k)
	case *ast.DeclStmt:
		gd := x.Decl.(*ast.GenDecl)
		if gd.Tok == token.CONST || gd.Tok == token.TYPE {
			return k(c)
		}
		var bs []glBind
		for _, sp := range gd.Specs {
			vs := sp.(*ast.ValueSpec)
			for i, id := range vs.Names {
				v := g.info().Defs[id].(*types.Var)
				val := g.zero(v.Type())
				if i < len(vs.Values) {
					val = g.expr(vs.Values[i], &bs)
				}
				if val == "" {
					g.bad(id.Pos(), "variable %s of type %s", id.Name, v.Type())
				}
				bs = append(bs, glBind{g.vname(v) + " : " + g.leanType(v.Type()), val, true})
				c = c.with(v)
			}
		}
		return glWrap(bs, k(c))
	case *ast.ExprStmt:
		call, ok := ast.Unparen(x.X).(*ast.CallExpr)
		if !ok {
			g.bad(x.Pos(), "expression statement")
			return k(c)
		}
		var bs []glBind
		if g.isLogging(call) {
			g.evalArgsOnly(call, &bs)
			return glWrap(bs, k(c))
		}
		if tgt, nv, _, ok := g.callUpdate(call, &bs); ok {
			c = g.assignTo(tgt, nv, &bs, c)
			return glWrap(bs, k(c))
		}
		g.expr(call, &bs) // evaluated for its panics only
		return glWrap(bs, k(c))
	case *ast.IncDecStmt:
		var bs []glBind
		a := g.expr(x.X, &bs)
		one := "(1 : " + g.leanType(g.typeOf(x.X)) + ")"
		op := " + "
		if x.Tok == token.DEC {
			op = " - "
		}
		c = g.assignTo(x.X, "("+a+op+one+")", &bs, c)
		return glWrap(bs, k(c))
	case *ast.AssignStmt:
		return g.assign(x, c, k)
	case *ast.ReturnStmt:
		if c.ret == nil {
			g.bad(x.Pos(), "return inside a construct translated without continuation")
			return "sorryReturn"
		}
		var bs []glBind
		var vals []string
		// return r.m(args) where m is a pointer-receiver method that assigns to its receiver: the receiver path is updated first
		if len(x.Results) == 1 {
			if call, ok := ast.Unparen(x.Results[0]).(*ast.CallExpr); ok {
				var tb []glBind
				if tgt, nv, rest, ok := g.callUpdate(call, &tb); ok && rest != "" {
					bs = append(bs, tb...)
					c = g.assignTo(tgt, nv, &bs, c)
					for i := range g.cur.results {
						vals = append(vals, tupleProj(rest, len(g.cur.results), i))
					}
					return glWrap(bs, c.ret(vals))
				}
			}
		}
		if len(x.Results) == 0 {
			for _, r := range g.cur.results {
				vals = append(vals, g.vname(r))
			}
		} else if len(x.Results) == 1 && len(g.cur.results) > 1 {
			// return f() with a multi-valued call
			v := g.expr(x.Results[0], &bs)
			for i := range g.cur.results {
				vals = append(vals, tupleProj(v, len(g.cur.results), i))
			}
		} else {
			for i, r := range x.Results {
				vals = append(vals, g.valueFor(r, g.cur.results[i].Type(), &bs))
			}
		}
		return glWrap(bs, c.ret(vals))
	case *ast.BranchStmt:
		if x.Label != nil {
			g.bad(x.Pos(), "labelled %s", x.Tok)
		}
		switch x.Tok {
		case token.BREAK:
			if c.brk != "" {
				return c.brk
			}
		case token.CONTINUE:
			if c.cont != "" {
				return c.cont
			}
		}
		g.bad(x.Pos(), "%s here", x.Tok)
		return "sorryBranch"
	case *ast.IfStmt:
		return g.ifStmt(x, c, k)
	case *ast.SwitchStmt:
		return g.switchStmt(x, c, k)
	case *ast.ForStmt:
		return g.forStmt(x.Init, x.Cond, x.Post, x.Body, c, k, x)
	case *ast.RangeStmt:
		return g.rangeStmt(x, c, k)
	}
	g.bad(s.Pos(), "statement %T", s)
	return k(c)
}

// the value of expression e where a value of Go type `want` is expected (nil for slices / errors)
func (g *gl) valueFor(e ast.Expr, want types.Type, bs *[]glBind) string {
	if id, ok := ast.Unparen(e).(*ast.Ident); ok && id.Name == "nil" {
		if z := g.zero(want); z != "" {
			return z
		}
	}
	return g.expr(e, bs)
}

// `be := binary.BigEndian`: a name for the byte order, no value of the fragment
func (g *gl) isByteOrder(e ast.Expr) bool {
	t := g.typeOf(e)
	n, ok := t.(*types.Named)
	return ok && n.Obj().Pkg() != nil && n.Obj().Pkg().Path() == "encoding/binary"
}

func (g *gl) assign(x *ast.AssignStmt, c *glCtx, k glK) string {
	var bs []glBind
	if len(x.Rhs) == 1 && len(x.Lhs) == 1 && g.isByteOrder(x.Rhs[0]) {
		return k(c)
	}
	if x.Tok != token.ASSIGN && x.Tok != token.DEFINE { // op=
		op := token.Token(int(x.Tok) - int(token.ADD_ASSIGN) + int(token.ADD))
		be := &ast.BinaryExpr{X: x.Lhs[0], Op: op, Y: x.Rhs[0], OpPos: x.Pos()}
		// the type checker knows nothing about the synthetic node: record the operand type
		g.info().Types[be] = types.TypeAndValue{Type: g.typeOf(x.Lhs[0])}
		val := g.binary(be, &bs)
		c = g.assignTo(x.Lhs[0], val, &bs, c)
		return glWrap(bs, k(c))
	}
	if len(x.Rhs) == 1 && len(x.Lhs) > 1 { // a, b := f()
		call, ok := ast.Unparen(x.Rhs[0]).(*ast.CallExpr)
		if !ok {
			g.bad(x.Pos(), "multi-value assignment from %T", x.Rhs[0])
			return k(c)
		}
		if tgt, nv, rest, ok := g.callUpdate(call, &bs); ok {
			c = g.assignTo(tgt, nv, &bs, c)
			for i, l := range x.Lhs {
				c = g.assignTo(l, tupleProj(rest, len(x.Lhs), i), &bs, c)
			}
			return glWrap(bs, k(c))
		}
		v := g.expr(call, &bs)
		for i, l := range x.Lhs {
			c = g.assignTo(l, tupleProj(v, len(x.Lhs), i), &bs, c)
		}
		return glWrap(bs, k(c))
	}
	// x = f() where f is a pointer-receiver method
	if len(x.Rhs) == 1 {
		if call, ok := ast.Unparen(x.Rhs[0]).(*ast.CallExpr); ok {
			if tgt, nv, rest, ok := g.callUpdate(call, &bs); ok && rest != "" {
				c = g.assignTo(tgt, nv, &bs, c)
				c = g.assignTo(x.Lhs[0], rest, &bs, c)
				return glWrap(bs, k(c))
			}
			bs = nil
		}
	}
	// all right-hand sides first, then the assignments
	var vals []string
	for i, r := range x.Rhs {
		var want types.Type
		if id, ok := ast.Unparen(x.Lhs[i]).(*ast.Ident); !ok || id.Name != "_" {
			want = g.typeOf(x.Lhs[i])
		}
		v := ""
		if want != nil {
			v = g.valueFor(r, want, &bs)
		} else {
			v = g.expr(r, &bs)
		}
		if len(x.Rhs) > 1 {
			n := g.fresh("a")
			bs = append(bs, glBind{n, v, true})
			v = n
		}
		vals = append(vals, v)
	}
	for i, l := range x.Lhs {
		c = g.assignTo(l, vals[i], &bs, c)
	}
	return glWrap(bs, k(c))
}
