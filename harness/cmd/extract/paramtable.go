package main

// X12 paramtable: the terminal-parameter table of protocol/model/t_terminal_params.go as Lean data.
//
// From (*TerminalParamDetails).parseParam, one row per parameter ID named in a `case` of `switch id`:
//   guard   N of a leading `if paramLen != N { return … }` of the clause (0: the clause has no such guard)
//   read    the number of bytes of `content` the clause reads unconditionally after the guard:
//           binary.BigEndian.Uint16/32/64(content) -> 2/4/8, content[k] -> k+1, [N]byte(content) -> N,
//           content[a:b] -> b; 0 when the clause only passes `content` on (strings, unknown IDs)
//   kind    dword | word | byte | arr4 | arr8 | string   (what the clause stores)
//   field   the struct field the value ends up in: read off the `case` of parseParamDWORD/WORD/Byte/String that assigns
//           `t.<Field> = …` for this ID, or the direct assignment in parseParam; "" when the ID is accepted but stored
//           nowhere
// and, from the struct type, the declaration order of the ParamContent fields (the order `encode` walks them in by
// reflection) with the position of the OtherContent map among them.
//
// Anything the extractor does not recognise (a guard of another shape, a read it cannot bound) is listed in
// `paramUntranslated`; an obligation of C03 demands that list to be empty.

import (
	"fmt"
	"go/ast"
	"go/parser"
	"go/token"
	"path/filepath"
	"sort"
	"strconv"
	"strings"
)

type paramRow struct {
	id          uint64
	guard, read int
	kind, field string
}

func intLit(e ast.Expr) (int, bool) {
	if bl, ok := e.(*ast.BasicLit); ok && bl.Kind == token.INT {
		v, err := strconv.ParseInt(bl.Value, 0, 64)
		return int(v), err == nil
	}
	return 0, false
}

func doParamTable(repo, out string) error {
	fset := token.NewFileSet()
	f, err := parser.ParseFile(fset, filepath.Join(repo, "protocol", "model", "t_terminal_params.go"), nil, 0)
	if err != nil {
		return err
	}
	funcs := map[string]*ast.FuncDecl{}
	var structT *ast.StructType
	for _, d := range f.Decls {
		switch x := d.(type) {
		case *ast.FuncDecl:
			if x.Recv != nil {
				funcs[x.Name.Name] = x
			}
		case *ast.GenDecl:
			for _, sp := range x.Specs {
				if ts, ok := sp.(*ast.TypeSpec); ok && ts.Name.Name == "TerminalParamDetails" {
					structT, _ = ts.Type.(*ast.StructType)
				}
			}
		}
	}
	var untr []string
	// id -> field, from the helper switches
	fieldOf := map[uint64]string{}
	for _, name := range []string{"parseParamDWORD", "parseParamWORD", "parseParamByte", "parseParamString"} {
		fd := funcs[name]
		if fd == nil {
			untr = append(untr, "missing "+name)
			continue
		}
		ast.Inspect(fd.Body, func(n ast.Node) bool {
			cc, ok := n.(*ast.CaseClause)
			if !ok {
				return true
			}
			var fld string
			for _, st := range cc.Body {
				if as, ok := st.(*ast.AssignStmt); ok && len(as.Lhs) == 1 {
					if se, ok := as.Lhs[0].(*ast.SelectorExpr); ok {
						fld = se.Sel.Name
					}
				}
			}
			for _, e := range cc.List {
				if v, ok := intLit(e); ok && fld != "" {
					fieldOf[uint64(v)] = fld
				}
			}
			return true
		})
	}
	var rows []paramRow
	pp := funcs["parseParam"]
	if pp == nil {
		untr = append(untr, "missing parseParam")
	} else {
		var sw *ast.SwitchStmt
		ast.Inspect(pp.Body, func(n ast.Node) bool {
			if s, ok := n.(*ast.SwitchStmt); ok && sw == nil {
				if id, ok := s.Tag.(*ast.Ident); ok && id.Name == "id" {
					sw = s
				}
			}
			return true
		})
		if sw == nil {
			untr = append(untr, "no switch id in parseParam")
		} else {
			for _, st := range sw.Body.List {
				cc := st.(*ast.CaseClause)
				if cc.List == nil {
					continue // default: unknown IDs are kept as raw bytes
				}
				guard, read := 0, 0
				kind, direct := "string", ""
				body := cc.Body
				if len(body) > 0 {
					if is, ok := body[0].(*ast.IfStmt); ok && is.Init == nil {
						if be, ok := is.Cond.(*ast.BinaryExpr); ok && exprString(be.X) == "paramLen" {
							if v, ok := intLit(be.Y); ok && be.Op == token.NEQ && len(is.Body.List) == 1 {
								if _, isRet := is.Body.List[0].(*ast.ReturnStmt); isRet {
									guard = v
									body = body[1:]
								}
							}
							if guard == 0 {
								untr = append(untr, "guard shape: "+exprString2(fset, is.Cond))
							}
						}
					}
				}
				for _, st := range body {
					ast.Inspect(st, func(n ast.Node) bool {
						switch x := n.(type) {
						case *ast.IfStmt:
							untr = append(untr, "conditional inside a clause: "+exprString2(fset, x.Cond))
						case *ast.CallExpr:
							fn := exprString2(fset, x.Fun)
							arg0 := ""
							if len(x.Args) > 0 {
								arg0 = exprString2(fset, x.Args[0])
							}
							if arg0 == "content" {
								switch fn {
								case "binary.BigEndian.Uint16":
									read, kind = max(read, 2), "word"
								case "binary.BigEndian.Uint32":
									read, kind = max(read, 4), "dword"
								case "binary.BigEndian.Uint64":
									read = max(read, 8)
								case "[4]byte":
									read, kind = max(read, 4), "arr4"
								case "[8]byte":
									read, kind = max(read, 8), "arr8"
								case "utils.GBK2UTF8", "string":
								default:
									untr = append(untr, "call on content: "+fn)
								}
							}
						case *ast.IndexExpr:
							if exprString(x.X) == "content" {
								if v, ok := intLit(x.Index); ok {
									read = max(read, v+1)
									if kind == "string" {
										kind = "byte"
									}
								} else {
									untr = append(untr, "content indexed by "+exprString2(fset, x.Index))
								}
							}
						case *ast.SliceExpr:
							if exprString(x.X) == "content" {
								if v, ok := intLit(x.High); ok {
									read = max(read, v)
								} else {
									untr = append(untr, "content sliced to "+exprString2(fset, x.High))
								}
							}
						case *ast.AssignStmt:
							if len(x.Lhs) == 1 {
								if se, ok := x.Lhs[0].(*ast.SelectorExpr); ok && exprString(se.X) == "t" && se.Sel.Name != "OtherContent" {
									direct = se.Sel.Name
								}
							}
						}
						return true
					})
				}
				for _, e := range cc.List {
					v, ok := intLit(e)
					if !ok {
						untr = append(untr, "case label "+exprString2(fset, e))
						continue
					}
					fld := direct
					if fld == "" {
						fld = fieldOf[uint64(v)]
					}
					rows = append(rows, paramRow{uint64(v), guard, read, kind, fld})
				}
			}
		}
	}
	sort.Slice(rows, func(i, j int) bool { return rows[i].id < rows[j].id })
	// declaration order of the fields encode() walks
	type fieldDecl struct{ name, kind string }
	var order []fieldDecl
	if structT == nil {
		untr = append(untr, "struct TerminalParamDetails not found")
	} else {
		for _, fl := range structT.Fields.List {
			ty := exprString2(fset, fl.Type)
			k := ""
			switch ty {
			case "ParamContent[uint32]":
				k = "dword"
			case "ParamContent[uint16]":
				k = "word"
			case "ParamContent[byte]":
				k = "byte"
			case "ParamContent[string]":
				k = "string"
			case "ParamContent[[4]byte]":
				k = "arr4"
			case "ParamContent[[8]byte]":
				k = "arr8"
			case "map[uint32]ParamContent[[]byte]":
				k = "other"
			default:
				continue
			}
			for _, n := range fl.Names {
				order = append(order, fieldDecl{n.Name, k})
			}
		}
	}
	idOfField := map[string]uint64{}
	for _, r := range rows {
		if r.field != "" {
			idOfField[r.field] = r.id
		}
	}
	var sb strings.Builder
	sb.WriteString("/-! GENERATED by /verif/harness/cmd/extract (paramtable) from protocol/model/t_terminal_params.go of /repo — do not edit.\n")
	sb.WriteString("`paramTable`: (id, guard, read, kind, stored) per parameter ID named in parseParam's switch (see the extractor's header);\n`paramFieldOrder`: the ParamContent fields of the struct in declaration order as (kind, id the parser stores there or 0),\nthe OtherContent map appearing as kind \"other\". -/\nnamespace JT.Gen\n")
	sb.WriteString("def paramTable : List (Nat × Nat × Nat × String × Bool) := [\n")
	for i, r := range rows {
		sep := ","
		if i == len(rows)-1 {
			sep = ""
		}
		fmt.Fprintf(&sb, "  (0x%03x, %d, %d, %q, %v)%s\n", r.id, r.guard, r.read, r.kind, r.field != "", sep)
	}
	sb.WriteString("]\n")
	sb.WriteString("def paramFieldOrder : List (String × Nat) := [\n")
	for i, fd := range order {
		sep := ","
		if i == len(order)-1 {
			sep = ""
		}
		fmt.Fprintf(&sb, "  (%q, 0x%03x)%s\n", fd.kind, idOfField[fd.name], sep)
	}
	sb.WriteString("]\n")
	sort.Strings(untr)
	sb.WriteString("def paramUntranslated : List String := [")
	for i, u := range untr {
		if i > 0 {
			sb.WriteString(", ")
		}
		fmt.Fprintf(&sb, "%q", u)
	}
	sb.WriteString("]\nend JT.Gen\n")
	return writeIfChanged(filepath.Join(out, "ParamTable.lean"), sb.String())
}
