package main

// golean, part 3: calls (builtins, the few library functions of the fragment, translated functions and methods)

import (
	"fmt"
	"go/ast"
	"go/constant"
	"go/token"
	"go/types"
	"strings"
)

// qualified name of the called package-level function or method: "bytes.ContainsRune", "binary.BigEndian.Uint16",
// "bytes.Buffer.Write"; "" otherwise
func (g *gl) calleeName(c *ast.CallExpr) (string, *types.Func) {
	var id *ast.Ident
	switch f := ast.Unparen(c.Fun).(type) {
	case *ast.Ident:
		id = f
	case *ast.SelectorExpr:
		id = f.Sel
	default:
		return "", nil
	}
	fn, ok := g.info().Uses[id].(*types.Func)
	if !ok {
		return "", nil
	}
	sig := fn.Type().(*types.Signature)
	if sig.Recv() != nil {
		rt := sig.Recv().Type()
		if p, ok := rt.(*types.Pointer); ok {
			rt = p.Elem()
		}
		if n, ok := rt.(*types.Named); ok && n.Obj().Pkg() != nil {
			return shortPkg(n.Obj().Pkg().Path()) + "." + n.Obj().Name() + "." + fn.Name(), fn
		}
		return "", fn
	}
	if fn.Pkg() == nil {
		return fn.Name(), fn
	}
	return shortPkg(fn.Pkg().Path()) + "." + fn.Name(), fn
}

// the expression a method is called on
func recvExpr(c *ast.CallExpr) ast.Expr {
	if s, ok := ast.Unparen(c.Fun).(*ast.SelectorExpr); ok {
		return s.X
	}
	return nil
}

// call in expression position (its value is used). Calls that update a variable (buf.Write, pointer-receiver methods,
// PutUint16 …) are statements and handled by callStmt.
func (g *gl) call(c *ast.CallExpr, bs *[]glBind) string {
	// conversion
	if tv, ok := g.info().Types[c.Fun]; ok && tv.IsType() {
		return g.convert(tv.Type, c.Args[0], bs, c.Pos())
	}
	// builtins
	if id, ok := ast.Unparen(c.Fun).(*ast.Ident); ok {
		if _, ok := g.info().Uses[id].(*types.Builtin); ok {
			return g.builtin(id.Name, c, bs)
		}
	}
	name, fn := g.calleeName(c)
	switch name {
	case "binary.bigEndian.Uint16", "binary.bigEndian.Uint32", "binary.bigEndian.Uint64":
		a := g.expr(c.Args[0], bs)
		n := g.fresh("t")
		*bs = append(*bs, glBind{n, fmt.Sprintf("(u%s %s)", strings.TrimPrefix(fn.Name(), "Uint"), a), false})
		return n
	case "binary.bigEndian.AppendUint16":
		a := g.expr(c.Args[0], bs)
		v := g.expr(c.Args[1], bs)
		return fmt.Sprintf("(%s ++ [(%s >>> (8 : UInt16)).toUInt8, %s.toUInt8])", a, v, atom(v))
	case "binary.bigEndian.AppendUint32":
		a := g.expr(c.Args[0], bs)
		v := g.expr(c.Args[1], bs)
		return fmt.Sprintf("(%s ++ Go.be32 %s)", a, atom(v))
	case "binary.bigEndian.AppendUint64":
		a := g.expr(c.Args[0], bs)
		v := g.expr(c.Args[1], bs)
		return fmt.Sprintf("(%s ++ Go.be64 %s)", a, atom(v))
	case "strings.Contains", "strings.ReplaceAll":
		// a one-byte ASCII constant: containing / removing the string is containing / removing the byte
		if tv := g.info().Types[c.Args[1]]; tv.Value != nil && tv.Value.Kind() == constant.String {
			if pat := constant.StringVal(tv.Value); len(pat) == 1 && pat[0] < 0x80 {
				if name == "strings.Contains" {
					return fmt.Sprintf("(%s.contains (%d : UInt8))", atom(g.expr(c.Args[0], bs)), pat[0])
				}
				if rv := g.info().Types[c.Args[2]]; rv.Value != nil && rv.Value.Kind() == constant.String && constant.StringVal(rv.Value) == "" {
					return fmt.Sprintf("(removeByte %s (%d : UInt8))", atom(g.expr(c.Args[0], bs)), pat[0])
				}
			}
		}
		g.bad(c.Pos(), "%s with a pattern that is not a one-byte ASCII constant (or a non-empty replacement)", name)
		return "[]"
	case "fmt.Sprintf":
		// "%.Nb" of one unsigned value no wider than N bits: exactly N characters '0'/'1', most significant first
		if tv := g.info().Types[c.Args[0]]; tv.Value != nil && tv.Value.Kind() == constant.String && len(c.Args) == 2 {
			var n int
			if f := constant.StringVal(tv.Value); len(f) >= 4 && f[0] == '%' && f[1] == '.' && f[len(f)-1] == 'b' {
				if _, err := fmt.Sscanf(f[2:len(f)-1], "%d", &n); err == nil && fmt.Sprintf("%%.%db", n) == f {
					if w := glWidth(g.leanType(g.typeOf(c.Args[1]))); w > 0 && w <= n {
						return fmt.Sprintf("(bitsN %d %s.toNat)", n, atom(g.expr(c.Args[1], bs)))
					}
				}
			}
		}
		// only %s verbs, every argument a string or []byte: the concatenation of the literal pieces and the arguments
		if tv := g.info().Types[c.Args[0]]; tv.Value != nil && tv.Value.Kind() == constant.String {
			pieces := strings.Split(constant.StringVal(tv.Value), "%s")
			ok := len(pieces) == len(c.Args)
			for _, pc := range pieces {
				if strings.Contains(pc, "%") {
					ok = false
				}
			}
			for _, a := range c.Args[1:] {
				if g.leanType(g.typeOf(a)) != "Bytes" {
					ok = false
				}
			}
			if ok {
				var parts []string
				for i, pc := range pieces {
					if pc != "" {
						lit, _ := g.constLit(constant.MakeString(pc), types.Typ[types.String])
						parts = append(parts, lit)
					}
					if i < len(c.Args)-1 {
						parts = append(parts, atom(g.expr(c.Args[i+1], bs)))
					}
				}
				if len(parts) == 0 {
					return "([] : Bytes)"
				}
				return "(" + strings.Join(parts, " ++ ") + ")"
			}
		}
		g.bad(c.Pos(), "fmt.Sprintf with verbs other than %%s or arguments that are not strings")
		return "[]"
	case "bytes.ContainsRune":
		a := g.expr(c.Args[0], bs)
		if tv := g.info().Types[c.Args[1]]; tv.Value != nil {
			if v, ok := constant.Int64Val(constant.ToInt(tv.Value)); ok && v >= 0 && v < 128 {
				return fmt.Sprintf("(%s.contains (%d : UInt8))", a, v)
			}
		}
		g.bad(c.Pos(), "bytes.ContainsRune with a non-ASCII or non-constant rune")
		return "false"
	case "bytes.Clone":
		return g.expr(c.Args[0], bs)
	case "bytes.Equal":
		return fmt.Sprintf("(%s == %s)", g.expr(c.Args[0], bs), g.expr(c.Args[1], bs))
	case "bytes.HasPrefix":
		a := g.expr(c.Args[0], bs)
		return fmt.Sprintf("(%s.isPrefixOf %s)", atom(g.expr(c.Args[1], bs)), a)
	case "bytes.Trim", "bytes.TrimRight", "bytes.TrimLeft":
		// a constant ASCII cutset: trimming runes and trimming bytes coincide (a byte >= 0x80 is never in the cutset)
		if tv := g.info().Types[c.Args[1]]; tv.Value != nil && tv.Value.Kind() == constant.String {
			cut := constant.StringVal(tv.Value)
			ascii := true
			var xs []string
			for i := 0; i < len(cut); i++ {
				if cut[i] >= 0x80 {
					ascii = false
				}
				xs = append(xs, fmt.Sprintf("%d", cut[i]))
			}
			if ascii {
				fn := map[string]string{"bytes.Trim": "trimBoth", "bytes.TrimRight": "trimRight", "bytes.TrimLeft": "trimLeft"}[name]
				return fmt.Sprintf("(%s %s ([%s] : Bytes))", fn, g.expr(c.Args[0], bs), strings.Join(xs, ", "))
			}
		}
		g.bad(c.Pos(), "%s with a non-constant or non-ASCII cutset", name)
		return "[]"
	case "bytes.IndexByte":
		return fmt.Sprintf("(indexByte %s %s)", g.expr(c.Args[0], bs), g.expr(c.Args[1], bs))
	case "bytes.IndexFunc":
		// func(r rune) bool { return r != C }
		if fl, ok := ast.Unparen(c.Args[1]).(*ast.FuncLit); ok && len(fl.Body.List) == 1 {
			if rs, ok := fl.Body.List[0].(*ast.ReturnStmt); ok && len(rs.Results) == 1 {
				if be, ok := ast.Unparen(rs.Results[0]).(*ast.BinaryExpr); ok && (be.Op.String() == "!=" || be.Op.String() == "==") {
					if tv := g.info().Types[be.Y]; tv.Value != nil {
						if id, ok := ast.Unparen(be.X).(*ast.Ident); ok && len(fl.Type.Params.List) == 1 && id.Name == fl.Type.Params.List[0].Names[0].Name {
							if be.Op.String() == "==" { // the first rune equal to an ASCII constant is the first such byte
								if v, ok := constant.Int64Val(constant.ToInt(tv.Value)); ok && v >= 0 && v < 128 {
									return fmt.Sprintf("(indexByte %s (%d : UInt8))", g.expr(c.Args[0], bs), v)
								}
							} else {
								return fmt.Sprintf("(indexNe %s (%s : UInt8))", g.expr(c.Args[0], bs), tv.Value.ExactString())
							}
						}
					}
				}
			}
		}
		// func(r rune) bool { if r == C { count++ }; return count == N }  with a captured local counter that is not
		// read again after the call: the index at which the running count of C reaches N
		if fl, ok := ast.Unparen(c.Args[1]).(*ast.FuncLit); ok && len(fl.Body.List) == 2 && len(fl.Type.Params.List) == 1 && len(fl.Type.Params.List[0].Names) == 1 {
			r := fl.Type.Params.List[0].Names[0].Name
			ifs, ok1 := fl.Body.List[0].(*ast.IfStmt)
			rs, ok2 := fl.Body.List[1].(*ast.ReturnStmt)
			if ok1 && ok2 && ifs.Init == nil && ifs.Else == nil && len(ifs.Body.List) == 1 && len(rs.Results) == 1 {
				cond, okc := ast.Unparen(ifs.Cond).(*ast.BinaryExpr)
				inc, oki := ifs.Body.List[0].(*ast.IncDecStmt)
				ret, okr := ast.Unparen(rs.Results[0]).(*ast.BinaryExpr)
				if okc && oki && okr && cond.Op == token.EQL && ret.Op == token.EQL && inc.Tok == token.INC {
					cx, _ := ast.Unparen(cond.X).(*ast.Ident)
					cnt, _ := ast.Unparen(inc.X).(*ast.Ident)
					rc, _ := ast.Unparen(ret.X).(*ast.Ident)
					cv, nv := g.info().Types[cond.Y], g.info().Types[ret.Y]
					if cx != nil && cnt != nil && rc != nil && cx.Name == r && cv.Value != nil && nv.Value != nil &&
						g.info().ObjectOf(cnt) == g.info().ObjectOf(rc) {
						if v, ok := g.info().ObjectOf(cnt).(*types.Var); ok && !v.IsField() && v.Parent() != v.Pkg().Scope() && g.leanType(v.Type()) == "Int" {
							if cval, ok := constant.Int64Val(constant.ToInt(cv.Value)); ok && cval >= 0 && cval < 128 {
								// the counter must not be read after the call (its final value is not modelled)
								used := false
								ast.Inspect(g.cur.decl.Body, func(n ast.Node) bool {
									if id, ok := n.(*ast.Ident); ok && id.Pos() > c.End() && g.info().ObjectOf(id) == v {
										used = true
									}
									return true
								})
								if used || g.insideLoop(c.Pos()) {
									g.bad(c.Pos(), "the counter of a bytes.IndexFunc predicate is used after the call or the call is inside a loop")
								}
								return fmt.Sprintf("(indexCount %s (%d : UInt8) %s (%s : Int))", g.expr(c.Args[0], bs), cval, g.vname(v), nv.Value.ExactString())
							}
						}
					}
				}
			}
		}
		g.bad(c.Pos(), "bytes.IndexFunc with a predicate of another shape")
		return "(0 : Int)"
	case "bytes.Buffer.Bytes":
		return g.expr(recvExpr(c), bs)
	case "bytes.Buffer.Len":
		return "(len " + g.expr(recvExpr(c), bs) + ")"
	case "errors.Join", "fmt.Errorf", "errors.New":
		// the identity kept is the last sentinel among the arguments
		tag := "error"
		for _, a := range c.Args {
			ast.Inspect(a, func(n ast.Node) bool {
				if id, ok := n.(*ast.Ident); ok {
					if v, ok := g.info().Uses[id].(*types.Var); ok && v.Pkg() != nil && v.Parent() == v.Pkg().Scope() && g.leanType(v.Type()) == "GoErr" {
						tag = v.Name()
					}
				}
				return true
			})
		}
		return fmt.Sprintf("(some %q : GoErr)", tag)
	}
	if fn != nil && strings.HasPrefix(fn.Pkg().Path(), glModPrefix) {
		t := g.fns[fn]
		if t != nil && g.inlinable(t) {
			return g.inlineCall(t, c, bs)
		}
		if t != nil && g.translateFn(t) {
			if t.recv != nil && t.recvPtr {
				// r.m(args) inside an expression, m assigning to its receiver: the call is bound, the receiver path is
				// re-bound to the returned receiver, the value is the method's result
				if g.promotedPath(c) != "" || len(t.results) != 1 {
					g.bad(c.Pos(), "value of a pointer-receiver method call used inside an expression (%s)", name)
					return "sorryCall"
				}
				r := recvExpr(c)
				args := []string{"fuel", atom(g.expr(r, bs))}
				for _, a := range c.Args {
					args = append(args, atom(g.expr(a, bs)))
				}
				n := g.fresh("r")
				*bs = append(*bs, glBind{n, "(" + t.lean + " " + strings.Join(args, " ") + ")", false})
				if v, nv := g.setPath(r, n+".1"); v != nil {
					*bs = append(*bs, glBind{g.vname(v) + " : " + g.leanType(v.Type()), nv, true})
				}
				return n + ".2"
			}
			args := []string{"fuel"}
			if t.recv != nil {
				args = append(args, atom(g.expr(recvExpr(c), bs)+g.promotedPath(c)))
			}
			for _, a := range c.Args {
				args = append(args, atom(g.expr(a, bs)))
			}
			n := g.fresh("r")
			*bs = append(*bs, glBind{n, "(" + t.lean + " " + strings.Join(args, " ") + ")", false})
			return n
		}
		g.bad(c.Pos(), "call of %s, which is not translated", name)
		return "sorryCall"
	}
	g.bad(c.Pos(), "call of %s", name)
	return "sorryCall"
}

func (g *gl) builtin(name string, c *ast.CallExpr, bs *[]glBind) string {
	switch name {
	case "len":
		a := g.expr(c.Args[0], bs)
		if lt := g.leanType(g.typeOf(c.Args[0])); lt == "Bytes" {
			return "(len " + a + ")"
		} else if strings.HasPrefix(lt, "(List") {
			return "(Int.ofNat " + atom(a) + ".length)"
		}
	case "append":
		a := g.expr(c.Args[0], bs)
		if id, ok := ast.Unparen(c.Args[0]).(*ast.Ident); ok && id.Name == "nil" {
			a = "[]"
		}
		if c.Ellipsis.IsValid() {
			return "(" + a + " ++ " + g.expr(c.Args[1], bs) + ")"
		}
		var xs []string
		for _, e := range c.Args[1:] {
			xs = append(xs, g.expr(e, bs))
		}
		return "(" + a + " ++ [" + strings.Join(xs, ", ") + "])"
	case "make":
		if g.leanType(g.typeOf(c)) == "Bytes" && len(c.Args) == 2 {
			n := g.fresh("t")
			*bs = append(*bs, glBind{n, "(make " + g.toInt(g.expr(c.Args[1], bs), g.typeOf(c.Args[1])) + ")", false})
			return n
		}
		if g.leanType(g.typeOf(c)) == "Bytes" && len(c.Args) == 3 { // len larger than cap panics
			n := g.fresh("t")
			l := g.toInt(g.expr(c.Args[1], bs), g.typeOf(c.Args[1]))
			cp := g.toInt(g.expr(c.Args[2], bs), g.typeOf(c.Args[2]))
			*bs = append(*bs, glBind{n, "(makeCap " + l + " " + cp + ")", false})
			return n
		}
	case "new":
		if tv, ok := g.info().Types[c.Args[0]]; ok && isBytesBuffer(tv.Type) {
			return "([] : Bytes)"
		}
		if z := g.zero(g.info().Types[c.Args[0]].Type); z != "" {
			return z
		}
	case "min", "max":
		if g.leanType(g.typeOf(c)) == "Int" && len(c.Args) == 2 {
			return fmt.Sprintf("(%s %s %s)", name, g.expr(c.Args[0], bs), g.expr(c.Args[1], bs))
		}
	}
	g.bad(c.Pos(), "builtin %s in this form", name)
	return "sorryBuiltin"
}

// a function whose body is a single `return <expr>` is inlined at the call (so that extracting an expression into a
// helper, or folding a helper back, translates to the same term)
func (g *gl) inlinable(t *glFn) bool {
	sig := t.obj.Type().(*types.Signature)
	if sig.Results().Len() != 1 || len(t.decl.Body.List) != 1 || sig.Variadic() {
		return false
	}
	if sig.Recv() != nil && g.leanType(sig.Recv().Type()) == "" {
		return false
	}
	rs, ok := t.decl.Body.List[0].(*ast.ReturnStmt)
	if !ok || len(rs.Results) != 1 {
		return false
	}
	for i := 0; i < sig.Params().Len(); i++ {
		if g.leanType(sig.Params().At(i).Type()) == "" {
			return false
		}
	}
	hasCall := false
	ast.Inspect(rs.Results[0], func(n ast.Node) bool {
		if ce, ok := n.(*ast.CallExpr); ok {
			if tv, ok := t.pkg.TypesInfo.Types[ce.Fun]; !ok || !tv.IsType() {
				hasCall = true
			}
		}
		return true
	})
	return !hasCall && g.leanType(sig.Results().At(0).Type()) != ""
}

func (g *gl) inlineCall(t *glFn, c *ast.CallExpr, bs *[]glBind) string {
	sig := t.obj.Type().(*types.Signature)
	if sig.Recv() != nil { // a method: the receiver is bound like a parameter (a single `return <expr>` assigns nothing)
		r := g.expr(recvExpr(c), bs)
		*bs = append(*bs, glBind{g.vname(sig.Recv()) + " : " + g.leanType(sig.Recv().Type()), r, true})
	}
	var args []string
	for _, a := range c.Args {
		args = append(args, g.expr(a, bs))
	}
	for i, a := range args {
		v := sig.Params().At(i)
		*bs = append(*bs, glBind{g.vname(v) + " : " + g.leanType(v.Type()), a, true})
	}
	saved := g.cur
	g.cur = &glFn{obj: t.obj, decl: t.decl, pkg: t.pkg, lean: saved.lean}
	r := g.expr(t.decl.Body.List[0].(*ast.ReturnStmt).Results[0], bs)
	g.cur = saved
	return r
}

// logging: fmt.Print*, slog.* as statements have no effect on the values; their arguments are still evaluated (a
// slice expression among them can panic)
func (g *gl) isLogging(c *ast.CallExpr) bool {
	name, _ := g.calleeName(c)
	return strings.HasPrefix(name, "fmt.Print") || strings.HasPrefix(name, "slog.") || strings.HasPrefix(name, "log.Print")
}

func (g *gl) evalArgsOnly(c *ast.CallExpr, bs *[]glBind) {
	for _, a := range c.Args {
		if inner, ok := ast.Unparen(a).(*ast.CallExpr); ok {
			name, _ := g.calleeName(inner)
			if name == "fmt.Sprintf" || name == "fmt.Errorf" || strings.HasPrefix(name, "slog.") {
				g.evalArgsOnly(inner, bs)
				continue
			}
		}
		if tv, ok := g.info().Types[a]; ok && tv.Value != nil {
			continue
		}
		if g.leanType(g.typeOf(a)) == "" {
			g.bad(a.Pos(), "logged value of type %s", g.typeOf(a))
			continue
		}
		g.expr(a, bs)
	}
}

// glUpdate: a call statement that updates a variable or a field path: returns the path expression that is updated and
// the Lean term of its new value (binds in bs); ok=false when the call is not of that kind
func (g *gl) callUpdate(c *ast.CallExpr, bs *[]glBind) (target ast.Expr, newVal string, rest string, ok bool) {
	if id, ok := ast.Unparen(c.Fun).(*ast.Ident); ok && id.Name == "copy" {
		if _, ok := g.info().Uses[id].(*types.Builtin); ok && len(c.Args) == 2 && g.leanType(g.typeOf(c.Args[0])) == "Bytes" && g.leanType(g.typeOf(c.Args[1])) == "Bytes" {
			dst := ast.Unparen(c.Args[0])
			base := dst
			lo, hi := "(0 : Int)", ""
			if se, ok := dst.(*ast.SliceExpr); ok && !se.Slice3 {
				base = se.X
				if se.Low != nil {
					lo = g.toInt(g.expr(se.Low, bs), g.typeOf(se.Low))
				}
				if se.High != nil {
					hi = g.toInt(g.expr(se.High, bs), g.typeOf(se.High))
				}
			}
			b := g.expr(base, bs)
			if hi == "" {
				hi = "(len " + b + ")"
			}
			src := g.expr(c.Args[1], bs)
			n := g.fresh("t")
			*bs = append(*bs, glBind{n, fmt.Sprintf("(copyAt %s %s %s %s)", b, lo, hi, src), false})
			return base, n, "", true
		}
	}
	name, fn := g.calleeName(c)
	switch name {
	case "bytes.Buffer.Write", "bytes.Buffer.WriteString":
		r := recvExpr(c)
		return r, "(" + g.expr(r, bs) + " ++ " + g.expr(c.Args[0], bs) + ")", "", true
	case "bytes.Buffer.WriteByte":
		r := recvExpr(c)
		return r, "(" + g.expr(r, bs) + " ++ [" + g.expr(c.Args[0], bs) + "])", "", true
	case "bytes.Buffer.Reset":
		return recvExpr(c), "([] : Bytes)", "", true
	case "binary.bigEndian.PutUint16", "binary.bigEndian.PutUint32":
		w := strings.TrimPrefix(fn.Name(), "PutUint")
		dst := ast.Unparen(c.Args[0])
		v := ""
		base := dst
		lo, hi := "(0 : Int)", ""
		if se, ok := dst.(*ast.SliceExpr); ok && !se.Slice3 {
			base = se.X
			if se.Low != nil {
				lo = g.toInt(g.expr(se.Low, bs), g.typeOf(se.Low))
			}
			if se.High != nil {
				hi = g.toInt(g.expr(se.High, bs), g.typeOf(se.High))
			}
		}
		b := g.expr(base, bs)
		if hi == "" {
			hi = "(len " + b + ")"
		}
		v = g.expr(c.Args[1], bs)
		n := g.fresh("t")
		*bs = append(*bs, glBind{n, fmt.Sprintf("(putU%sAt %s %s %s %s)", w, b, lo, hi, v), false})
		return base, n, "", true
	}
	if fn != nil && fn.Pkg() != nil && strings.HasPrefix(fn.Pkg().Path(), glModPrefix) {
		t := g.fns[fn]
		if t != nil && g.translateFn(t) && t.recv != nil && t.recvPtr {
			r := recvExpr(c)
			if g.promotedPath(c) != "" {
				g.bad(c.Pos(), "a method promoted from an embedded struct assigns to its receiver")
			}
			args := []string{"fuel", atom(g.expr(r, bs))}
			for _, a := range c.Args {
				args = append(args, atom(g.expr(a, bs)))
			}
			n := g.fresh("r")
			*bs = append(*bs, glBind{n, "(" + t.lean + " " + strings.Join(args, " ") + ")", false})
			if len(t.results) == 0 {
				return r, n, "", true
			}
			return r, n + ".1", n + ".2", true
		}
	}
	return nil, "", "", false
}

// setPath builds the Lean term for "path := val" as an update of the root variable; returns (root object, new root term)
func (g *gl) setPath(path ast.Expr, val string) (*types.Var, string) {
	path = ast.Unparen(path)
	switch x := path.(type) {
	case *ast.Ident:
		if v, ok := g.info().ObjectOf(x).(*types.Var); ok {
			return v, val
		}
	case *ast.StarExpr:
		return g.setPath(x.X, val)
	case *ast.SelectorExpr:
		if sel, ok := g.info().Selections[x]; ok && sel.Kind() == types.FieldVal {
			var nb []glBind
			base := g.expr(x.X, &nb)
			if len(nb) > 0 {
				g.bad(x.Pos(), "assignment through a computed path")
			}
			// a promoted field is set through the embedded structs on the way
			names := strings.Split(strings.TrimPrefix(g.fieldPath(sel), "."), ".")
			for i := len(names) - 1; i >= 0; i-- {
				prefix := base
				for _, n := range names[:i] {
					prefix += "." + n
				}
				val = fmt.Sprintf("{ %s with %s := %s }", prefix, names[i], val)
			}
			return g.setPath(x.X, val)
		}
	}
	g.bad(path.Pos(), "assignment target %T", path)
	return nil, val
}

// is the position inside a for / range statement of the function being translated?
func (g *gl) insideLoop(pos token.Pos) bool {
	in := false
	ast.Inspect(g.cur.decl.Body, func(n ast.Node) bool {
		switch x := n.(type) {
		case *ast.ForStmt:
			if x.Body.Pos() <= pos && pos < x.Body.End() {
				in = true
			}
		case *ast.RangeStmt:
			if x.Body.Pos() <= pos && pos < x.Body.End() {
				in = true
			}
		}
		return true
	})
	return in
}

// a method promoted from an embedded struct is called on that struct: ".Embedded" (or a longer path), "" otherwise
func (g *gl) promotedPath(c *ast.CallExpr) string {
	se, ok := ast.Unparen(c.Fun).(*ast.SelectorExpr)
	if !ok {
		return ""
	}
	sel, ok := g.info().Selections[se]
	if !ok || sel.Kind() != types.MethodVal || len(sel.Index()) < 2 {
		return ""
	}
	t := sel.Recv()
	out := ""
	for _, i := range sel.Index()[:len(sel.Index())-1] {
		if p, ok := t.(*types.Pointer); ok {
			t = p.Elem()
		}
		f := t.Underlying().(*types.Struct).Field(i)
		out += "." + glField(f.Name())
		t = f.Type()
	}
	return out
}
