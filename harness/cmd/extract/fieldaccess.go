package main

// X10 fieldaccess: which fields of service.connection are read / written by which goroutine role.
//
// Roles are the goroutines the code starts on a connection: "reader" (go c.reader()), "writer" (go c.write()),
// and "timer" (every `go func` literal inside a method: the body of the literal). For each role the methods of
// *connection reachable through `c.<method>(...)` calls are collected (calls inside a `go func` literal belong to
// the timer role, not to the enclosing role), and every selector `c.<field>` in them is recorded as a read, or as
// a write when it is the target of an assignment, ++/--, delete(...), clear(...) or its address is taken.
// Map/slice element writes `c.f[k] = v` count as writes of f. Channel operations (send, receive, close, select
// cases, passing the channel value) and method calls on the field value count as reads of the field (the
// field itself is not modified).
//
// Also: in reader(), does any statement after a channel send of `msg` in the same block mention `msg` again.

import (
	"fmt"
	"go/ast"
	"go/parser"
	"go/token"
	"path/filepath"
	"sort"
	"strings"
)

type faAcc struct {
	field, role string
	write       bool
}

func doFieldAccess(repo, out string) error {
	fset := token.NewFileSet()
	files, _ := filepath.Glob(filepath.Join(repo, "service", "*.go"))
	methods := map[string]*ast.FuncDecl{}
	recvName := map[string]string{}
	fields := []string{}
	for _, fn := range files {
		if strings.HasSuffix(fn, "_test.go") {
			continue
		}
		f, err := parser.ParseFile(fset, fn, nil, 0)
		if err != nil {
			return err
		}
		for _, d := range f.Decls {
			switch x := d.(type) {
			case *ast.FuncDecl:
				if x.Recv != nil && len(x.Recv.List) == 1 {
					t := exprString(x.Recv.List[0].Type)
					if t == "*connection" || t == "connection" {
						methods[x.Name.Name] = x
						if len(x.Recv.List[0].Names) > 0 {
							recvName[x.Name.Name] = x.Recv.List[0].Names[0].Name
						}
					}
				}
			case *ast.GenDecl:
				for _, sp := range x.Specs {
					if ts, ok := sp.(*ast.TypeSpec); ok && ts.Name.Name == "connection" {
						if st, ok := ts.Type.(*ast.StructType); ok {
							for _, fl := range st.Fields.List {
								for _, n := range fl.Names {
									fields = append(fields, n.Name)
								}
							}
						}
					}
				}
			}
		}
	}
	isField := map[string]bool{}
	for _, f := range fields {
		isField[f] = true
	}
	var accs []faAcc
	seen := map[string]bool{}
	add := func(field, role string, w bool) {
		k := fmt.Sprintf("%s/%s/%v", field, role, w)
		if !seen[k] && isField[field] {
			seen[k] = true
			accs = append(accs, faAcc{field, role, w})
		}
	}
	visited := map[string]bool{}
	var walkBody func(role, recv string, body ast.Node)
	var walkMethod func(role, name string)
	walkMethod = func(role, name string) {
		if visited[role+"/"+name] {
			return
		}
		visited[role+"/"+name] = true
		fd := methods[name]
		if fd == nil || fd.Body == nil {
			return
		}
		walkBody(role, recvName[name], fd.Body)
	}
	fieldOf := func(recv string, e ast.Expr) (string, bool) {
		// c.f  |  c.f[k]  |  (c.f)
		for {
			switch x := e.(type) {
			case *ast.ParenExpr:
				e = x.X
				continue
			case *ast.IndexExpr:
				e = x.X
				continue
			case *ast.SelectorExpr:
				if id, ok := x.X.(*ast.Ident); ok && id.Name == recv {
					return x.Sel.Name, true
				}
				return "", false
			default:
				return "", false
			}
		}
	}
	walkBody = func(role, recv string, body ast.Node) {
		ast.Inspect(body, func(n ast.Node) bool {
			switch x := n.(type) {
			case *ast.GoStmt:
				if fl, ok := x.Call.Fun.(*ast.FuncLit); ok {
					walkBody("timer", recv, fl.Body)
					for _, a := range x.Call.Args {
						walkBody(role, recv, a)
					}
					return false
				}
			case *ast.AssignStmt:
				for _, l := range x.Lhs {
					if f, ok := fieldOf(recv, l); ok {
						add(f, role, true)
					}
				}
			case *ast.IncDecStmt:
				if f, ok := fieldOf(recv, x.X); ok {
					add(f, role, true)
				}
			case *ast.UnaryExpr:
				if x.Op == token.AND {
					if f, ok := fieldOf(recv, x.X); ok {
						add(f, role, true)
					}
				}
			case *ast.CallExpr:
				fn := exprString(x.Fun)
				if (fn == "clear" || fn == "delete") && len(x.Args) > 0 {
					if f, ok := fieldOf(recv, x.Args[0]); ok {
						add(f, role, true)
					}
				}
				if se, ok := x.Fun.(*ast.SelectorExpr); ok {
					if id, ok := se.X.(*ast.Ident); ok && id.Name == recv {
						if _, isM := methods[se.Sel.Name]; isM {
							walkMethod(role, se.Sel.Name)
						}
					}
				}
			case *ast.SelectorExpr:
				if id, ok := x.X.(*ast.Ident); ok && id.Name == recv {
					if _, isM := methods[x.Sel.Name]; !isM {
						add(x.Sel.Name, role, false)
					} else {
						// a method value (e.g. `c.stopOnce.Do(c.shutdown)`): whoever receives it may call it, here: this role
						walkMethod(role, x.Sel.Name)
					}
				}
			}
			return true
		})
	}
	walkMethod("reader", "reader")
	walkMethod("writer", "write")
	sort.Slice(accs, func(i, j int) bool {
		a, b := accs[i], accs[j]
		if a.field != b.field {
			return a.field < b.field
		}
		if a.role != b.role {
			return a.role < b.role
		}
		return !a.write && b.write
	})
	// hand-over: after `c.<chan> <- msg` nothing in the same block mentions msg
	touches := false
	sends := 0
	if rd := methods["reader"]; rd != nil {
		ast.Inspect(rd.Body, func(n ast.Node) bool {
			bl, ok := n.(*ast.BlockStmt)
			if !ok {
				return true
			}
			for i, st := range bl.List {
				if ss, ok := st.(*ast.SendStmt); ok {
					if id, ok := ss.Value.(*ast.Ident); ok {
						sends++
						for _, later := range bl.List[i+1:] {
							ast.Inspect(later, func(m ast.Node) bool {
								if x, ok := m.(*ast.Ident); ok && x.Name == id.Name {
									touches = true
								}
								return true
							})
						}
					}
				}
			}
			return true
		})
	}
	var sb strings.Builder
	sb.WriteString("/-! GENERATED by /verif/harness/cmd/extract (fieldaccess) from package service of /repo — do not edit.\n")
	sb.WriteString("(field of `connection`, goroutine role, isWrite) for every access reachable from `reader()`, `write()` and the `go func` literals. -/\nnamespace JT.Gen\n")
	sb.WriteString("def connFields : List String := [")
	for i, f := range fields {
		if i > 0 {
			sb.WriteString(", ")
		}
		fmt.Fprintf(&sb, "%q", f)
	}
	sb.WriteString("]\ndef fieldAccess : List (String × String × Bool) := [\n")
	for i, a := range accs {
		if i > 0 {
			sb.WriteString(",\n")
		}
		fmt.Fprintf(&sb, "  (%q, %q, %v)", a.field, a.role, a.write)
	}
	sb.WriteString("]\n")
	fmt.Fprintf(&sb, "def readerSendsOfMsg : Nat := %d\n", sends)
	fmt.Fprintf(&sb, "def readerTouchesMsgAfterSend : Bool := %v\n", touches)
	sb.WriteString("end JT.Gen\n")
	return writeIfChanged(filepath.Join(out, "FieldAccess.lean"), sb.String())
}
