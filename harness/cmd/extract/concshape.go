package main

// X11 concshape: shape facts of the concurrent code that the transition systems (lean/JT/Model/Act.lean,
// Registry.lean, Parse.lean) assume. Each is a boolean read off the syntax of package service:
//
//   managerOpsInClosure   in sessionManager.join/leave/write every use of the session table (`record`) and the
//                         hand-over `… .activeMsgChan <- …` is inside the func literal sent on operationFuncChan
//                         (so lookup + enqueue / insert / delete are one atomic manager operation)
//   managerOneOpPerCall   each of join/leave/write sends exactly one func literal on operationFuncChan and calls no other
//                         method of the session manager (test-then-insert, lookup-then-hand-over are ONE manager operation,
//                         not two that another connection's operation can come between)
//   enqueueBlocking       that hand-over is a plain send statement, not a case of a `select` with a `default`
//   stopLeaveBeforeClose  in connection.stop: leaveFunc(...) is called before close(stopChan) and conn.Close()
//   reissueSendBlocking   in connection.reader: the send on reissuePackChan is a plain (blocking) send
//   msgSendBlocking       in connection.reader: the send on msgChan is a plain (blocking) send
//   managerStartedOnce    exactly one `go ….sessionManager.run()` in the package, in the constructor New (one manager
//                         goroutine owns the session table)
//   writerNoSelfSend      no code reachable from connection.write (outside `go func` literals) sends on
//                         activeMsgCompleteChan, the channel only the writer itself receives from
//   stopDrainsAll         in connection.onStopEvent: the queue of not-yet-written commands is emptied by a
//                         `for { select { case v := <-c.activeMsgChan: … default: return } }` loop

import (
	"fmt"
	"go/ast"
	"go/parser"
	"go/token"
	"path/filepath"
	"strings"
)

func doConcShape(repo, out string) error {
	fset := token.NewFileSet()
	files, _ := filepath.Glob(filepath.Join(repo, "service", "*.go"))
	meth := map[string]*ast.FuncDecl{}
	for _, fn := range files {
		if strings.HasSuffix(fn, "_test.go") {
			continue
		}
		f, err := parser.ParseFile(fset, fn, nil, 0)
		if err != nil {
			return err
		}
		for _, d := range f.Decls {
			if fd, ok := d.(*ast.FuncDecl); ok && fd.Recv != nil && len(fd.Recv.List) == 1 {
				t := strings.TrimPrefix(exprString(fd.Recv.List[0].Type), "*")
				meth[t+"."+fd.Name.Name] = fd
			}
		}
	}
	// --- session manager
	inClosure := true
	oneOp := true
	enqueueBlocking := true
	sawEnqueue := false
	for _, name := range []string{"sessionManager.join", "sessionManager.leave", "sessionManager.write"} {
		fd := meth[name]
		if fd == nil {
			inClosure = false
			continue
		}
		// the func literals that are sent on operationFuncChan
		var lits []*ast.FuncLit
		ast.Inspect(fd.Body, func(n ast.Node) bool {
			if ss, ok := n.(*ast.SendStmt); ok && strings.HasSuffix(exprString(ss.Chan), "operationFuncChan") {
				if fl, ok := ss.Value.(*ast.FuncLit); ok {
					lits = append(lits, fl)
				}
			}
			return true
		})
		inside := func(n ast.Node) bool {
			for _, l := range lits {
				if n.Pos() >= l.Pos() && n.End() <= l.End() {
					return true
				}
			}
			return false
		}
		if len(lits) == 0 {
			inClosure = false
		}
		nSend := 0
		recvName := ""
		if len(fd.Recv.List[0].Names) == 1 {
			recvName = fd.Recv.List[0].Names[0].Name
		}
		ast.Inspect(fd.Body, func(n ast.Node) bool {
			switch x := n.(type) {
			case *ast.SendStmt:
				if strings.HasSuffix(exprString(x.Chan), "operationFuncChan") {
					nSend++
				}
			case *ast.CallExpr:
				if se, ok := x.Fun.(*ast.SelectorExpr); ok {
					if id, ok := se.X.(*ast.Ident); ok && id.Name == recvName && meth["sessionManager."+se.Sel.Name] != nil {
						oneOp = false
					}
				}
			}
			return true
		})
		if nSend != 1 || len(lits) != 1 {
			oneOp = false
		}
		// parents for the select/default test
		var stack []ast.Node
		ast.Inspect(fd.Body, func(n ast.Node) bool {
			if n == nil {
				stack = stack[:len(stack)-1]
				return true
			}
			stack = append(stack, n)
			switch x := n.(type) {
			case *ast.Ident:
				if x.Name == "record" && !inside(x) {
					// the parameter declaration of the literal itself is inside; anything else is outside
					inClosure = false
				}
			case *ast.SendStmt:
				if strings.HasSuffix(exprString(x.Chan), "activeMsgChan") {
					sawEnqueue = true
					if !inside(x) {
						inClosure = false
					}
					// is it the Comm of a CommClause?
					for i := len(stack) - 2; i >= 0; i-- {
						if cc, ok := stack[i].(*ast.CommClause); ok && cc.Comm == ast.Stmt(x) {
							enqueueBlocking = false
						}
					}
				}
			}
			return true
		})
	}
	if !sawEnqueue {
		enqueueBlocking = false
	}
	// --- connection.stop order
	stopOrder := false
	if fd := meth["connection.stop"]; fd != nil {
		// the statements of stop() itself plus those of connection methods it calls or passes as a method value
		// (e.g. `c.stopOnce.Do(c.shutdown)`), in source order of the bodies visited
		var bodies []*ast.BlockStmt
		seenM := map[string]bool{"stop": true}
		bodies = append(bodies, fd.Body)
		ast.Inspect(fd.Body, func(n ast.Node) bool {
			if se, ok := n.(*ast.SelectorExpr); ok {
				if id, ok := se.X.(*ast.Ident); ok && id.Name == "c" {
					if m := meth["connection."+se.Sel.Name]; m != nil && !seenM[se.Sel.Name] {
						seenM[se.Sel.Name] = true
						bodies = append(bodies, m.Body)
					}
				}
			}
			return true
		})
		order := 0
		posLeave, posClose, posConn := -1, -1, -1
		for _, b := range bodies {
			ast.Inspect(b, func(n ast.Node) bool {
				if ce, ok := n.(*ast.CallExpr); ok {
					order++
					fn := exprString(ce.Fun)
					switch {
					case strings.HasSuffix(fn, ".leaveFunc") && posLeave < 0:
						posLeave = order
					case fn == "close" && len(ce.Args) == 1 && strings.HasSuffix(exprString(ce.Args[0]), "stopChan") && posClose < 0:
						posClose = order
					case strings.HasSuffix(fn, ".conn.Close") && posConn < 0:
						posConn = order
					}
				}
				return true
			})
		}
		stopOrder = posLeave >= 0 && posClose >= 0 && posConn >= 0 && posLeave < posClose && posLeave < posConn
	}
	// --- reader sends
	plainSend := func(fd *ast.FuncDecl, ch string) bool {
		if fd == nil {
			return false
		}
		found, plain := false, true
		var stack []ast.Node
		ast.Inspect(fd.Body, func(n ast.Node) bool {
			if n == nil {
				stack = stack[:len(stack)-1]
				return true
			}
			stack = append(stack, n)
			if ss, ok := n.(*ast.SendStmt); ok && strings.HasSuffix(exprString(ss.Chan), ch) {
				found = true
				for i := len(stack) - 2; i >= 0; i-- {
					if cc, ok := stack[i].(*ast.CommClause); ok && cc.Comm == ast.Stmt(ss) {
						plain = false
					}
				}
			}
			return true
		})
		return found && plain
	}
	reissue := plainSend(meth["connection.reader"], "reissuePackChan")
	msgSend := plainSend(meth["connection.reader"], "msgChan")
	// --- onStopEvent drain loop
	drains := false
	if fd := meth["connection.onStopEvent"]; fd != nil {
		ast.Inspect(fd.Body, func(n ast.Node) bool {
			fs, ok := n.(*ast.ForStmt)
			if !ok || fs.Cond != nil || fs.Init != nil || fs.Post != nil || len(fs.Body.List) != 1 {
				return true
			}
			sel, ok := fs.Body.List[0].(*ast.SelectStmt)
			if !ok {
				return true
			}
			recvAct, defRet := false, false
			for _, c := range sel.Body.List {
				cc := c.(*ast.CommClause)
				if cc.Comm == nil {
					if len(cc.Body) == 1 {
						switch x := cc.Body[0].(type) {
						case *ast.ReturnStmt:
							defRet = true
						case *ast.BranchStmt: // `break <label>` / `goto <label>`: leaves the loop as well
							if x.Label != nil && (x.Tok == token.BREAK || x.Tok == token.GOTO) {
								defRet = true
							}
						}
					}
					continue
				}
				if strings.Contains(exprString2(fset, cc.Comm), "<-c.activeMsgChan") {
					recvAct = true
				}
			}
			if recvAct && defRet {
				drains = true
			}
			return true
		})
	}
	// --- exactly one session-manager goroutine, started by the constructor
	managerOnce := false
	{
		count, inNew := 0, false
		for _, fn := range files {
			if strings.HasSuffix(fn, "_test.go") {
				continue
			}
			f, err := parser.ParseFile(fset, fn, nil, 0)
			if err != nil {
				return err
			}
			for _, d := range f.Decls {
				fd, ok := d.(*ast.FuncDecl)
				if !ok || fd.Body == nil {
					continue
				}
				ast.Inspect(fd.Body, func(n ast.Node) bool {
					if gs, ok := n.(*ast.GoStmt); ok && strings.HasSuffix(exprString(gs.Call.Fun), "sessionManager.run") {
						count++
						inNew = fd.Recv == nil && fd.Name.Name == "New"
					}
					return true
				})
			}
		}
		managerOnce = count == 1 && inNew
	}
	// --- the writer goroutine never sends on a channel that only it receives from (activeMsgCompleteChan):
	// methods reachable from write() through c.<method>() calls, bodies of `go func` literals excluded
	writerNoSelfSend := true
	{
		seen := map[string]bool{}
		var walk func(name string)
		walk = func(name string) {
			if seen[name] {
				return
			}
			seen[name] = true
			fd := meth["connection."+name]
			if fd == nil {
				return
			}
			ast.Inspect(fd.Body, func(n ast.Node) bool {
				switch x := n.(type) {
				case *ast.GoStmt:
					if _, ok := x.Call.Fun.(*ast.FuncLit); ok {
						return false
					}
				case *ast.SendStmt:
					if strings.HasSuffix(exprString(x.Chan), "activeMsgCompleteChan") {
						writerNoSelfSend = false
					}
				case *ast.CallExpr:
					if se, ok := x.Fun.(*ast.SelectorExpr); ok {
						if id, ok := se.X.(*ast.Ident); ok && id.Name == "c" {
							if _, isM := meth["connection."+se.Sel.Name]; isM {
								walk(se.Sel.Name)
							}
						}
					}
				}
				return true
			})
		}
		walk("write")
		if meth["connection.write"] == nil {
			writerNoSelfSend = false
		}
	}
	// managerReplyAwaited: join/leave/write wait for the manager's answer with a plain receive — no `select`, no timer —
	// outside the closure they send (a caller that gives up leaves its queued operation behind: the manager would still
	// apply it later). managerTableCreatedOnce: in sessionManager.run the session table is made once and never assigned
	// again (an operation sees every session recorded before it).
	replyAwaited := true
	for _, name := range []string{"sessionManager.join", "sessionManager.leave", "sessionManager.write"} {
		fd := meth[name]
		if fd == nil {
			replyAwaited = false
			continue
		}
		var lits []*ast.FuncLit
		ast.Inspect(fd.Body, func(n ast.Node) bool {
			if ss, ok := n.(*ast.SendStmt); ok && strings.HasSuffix(exprString(ss.Chan), "operationFuncChan") {
				if fl, ok := ss.Value.(*ast.FuncLit); ok {
					lits = append(lits, fl)
				}
			}
			return true
		})
		ast.Inspect(fd.Body, func(n ast.Node) bool {
			for _, l := range lits {
				if n == l {
					return false
				}
			}
			switch x := n.(type) {
			case *ast.SelectStmt:
				replyAwaited = false
			case *ast.CallExpr:
				if strings.HasPrefix(exprString(x.Fun), "time.") || strings.HasPrefix(exprString(x.Fun), "context.") {
					replyAwaited = false
				}
			}
			return true
		})
	}
	tableOnce := false
	if fd := meth["sessionManager.run"]; fd != nil {
		defs, assigns := 0, 0
		ast.Inspect(fd.Body, func(n ast.Node) bool {
			if as, ok := n.(*ast.AssignStmt); ok {
				for _, l := range as.Lhs {
					if id, ok := l.(*ast.Ident); ok && id.Name == "record" {
						if as.Tok == token.DEFINE {
							defs++
						} else {
							assigns++
						}
					}
				}
			}
			return true
		})
		tableOnce = defs == 1 && assigns == 0
	}
	var sb strings.Builder
	sb.WriteString("/-! GENERATED by /verif/harness/cmd/extract (concshape) from package service of /repo — do not edit.\nShape facts of the concurrent code that the transition-system models assume (see the extractor's header). -/\nnamespace JT.Gen\n")
	fmt.Fprintf(&sb, "def managerOpsInClosure : Bool := %v\n", inClosure)
	fmt.Fprintf(&sb, "def managerOneOpPerCall : Bool := %v\n", oneOp)
	fmt.Fprintf(&sb, "def enqueueBlocking : Bool := %v\n", enqueueBlocking)
	fmt.Fprintf(&sb, "def stopLeaveBeforeClose : Bool := %v\n", stopOrder)
	fmt.Fprintf(&sb, "def reissueSendBlocking : Bool := %v\n", reissue)
	fmt.Fprintf(&sb, "def msgSendBlocking : Bool := %v\n", msgSend)
	fmt.Fprintf(&sb, "def stopDrainsAll : Bool := %v\n", drains)
	fmt.Fprintf(&sb, "def managerStartedOnce : Bool := %v\n", managerOnce)
	fmt.Fprintf(&sb, "def writerNoSelfSend : Bool := %v\n", writerNoSelfSend)
	fmt.Fprintf(&sb, "def managerReplyAwaited : Bool := %v\n", replyAwaited)
	fmt.Fprintf(&sb, "def managerTableCreatedOnce : Bool := %v\n", tableOnce)
	sb.WriteString("end JT.Gen\n")
	return writeIfChanged(filepath.Join(out, "ConcShape.lean"), sb.String())
}
