// Command sysd runs one of the library's TCP servers (the JT/T 808 `service` or the alarm
// `attachment` server) in a subprocess and reports everything the library tells its callbacks as one
// JSON object per line on (the original) stdout. Commands are read from stdin, one per line. It is
// driven by package verif/harness/internal/sock.
//
// Nothing here recovers from panics: a panic inside the library (or inside a README-style handler)
// must kill the process with Go's exit status 2 and the trace on stderr. That is what is observed.
//
// Output protocol (every line has "event" and "t_ms" = milliseconds since process start):
//
//	listening     addr                         first line, after a probe dial succeeded
//	fatal         err                          could not start; exit status 3
//	join          conn key err msg             TerminalEventer.OnJoinEvent
//	leave         conn key                     TerminalEventer.OnLeaveEvent
//	notsupported  conn msg                     TerminalEventer.OnNotSupportedEvent
//	read / write  conn msg                     TerminalEventer.OnRead/OnWriteExecutionEvent
//	resnap        conn kind same fields inputChanged first second
//	                                           a message rendered differently -resnap-ms later
//	active-start  tag                          about to call SendActiveMessage
//	active-result tag elapsed_ms err platformSeq respID respSerial respBody platformData msg
//	stats         goroutines resnap_checked resnap_diffs resnap_input_diffs conns
//	resnap-summary checked diffs input_diffs pending       on quit
//	file-event    conn stage stageName record current err ...   (attach mode)
//	bad-command   line err
//
// stdin: `send <tag> <key> <commandID> <bodyhex|-> <timeout_ms>`, `stats`, `quit`. EOF on stdin is
// treated as quit (so an orphaned server never outlives its parent).
//
// Attachment file events: the library's default FileEventer constructor is unexported, but
// attachment.Option is an exported struct around func(*Options) and newOptions installs the default
// FileEventerFunc before applying options. So an Option captures that default factory and wraps it:
// every OnEvent is logged first and then DELEGATED to the library default handler (files are written
// under the cwd). -delegate=false logs only; -default-files=true passes straight through to the
// library default without logging. In every variant connection 1 (sysd's own readiness probe) is
// not delegated, because the default handler would crash the process on it (see main).
package main

import (
	"bufio"
	"crypto/sha256"
	"encoding/hex"
	"encoding/json"
	"errors"
	"flag"
	"fmt"
	"io"
	"log/slog"
	"net"
	"os"
	"reflect"
	"runtime"
	"sort"
	"strconv"
	"strings"
	"sync"
	"sync/atomic"
	"syscall"
	"time"

	"github.com/cuteLittleDevil/go-jt808/attachment"
	"github.com/cuteLittleDevil/go-jt808/protocol/model"
	"github.com/cuteLittleDevil/go-jt808/service"
	"github.com/cuteLittleDevil/go-jt808/shared/consts"
)

// ---------------------------------------------------------------- output

var (
	t0    = time.Now()
	outMu sync.Mutex
	out   *os.File // duplicate of the original stdout; os.Stdout itself goes to /dev/null
)

type ev map[string]any // encoding/json sorts map keys: output is deterministic

// emit writes one JSON line with a single write(2), so lines never interleave and nothing is lost
// in a user-space buffer when the process dies of a panic right afterwards.
func emit(e ev) {
	e["t_ms"] = time.Since(t0).Milliseconds()
	b, err := json.Marshal(e)
	if err != nil {
		b, _ = json.Marshal(ev{"event": "marshal-error", "err": err.Error(), "t_ms": e["t_ms"]})
	}
	outMu.Lock()
	_, _ = out.Write(append(b, '\n'))
	outMu.Unlock()
}

func fatal(err string) {
	emit(ev{"event": "fatal", "err": err})
	os.Exit(3)
}

func hx(b []byte) string { return hex.EncodeToString(b) } // lower-case, "" for empty
func errStr(err error) string {
	if err == nil {
		return ""
	}
	return err.Error()
}

// ---------------------------------------------------------------- message rendering

// msgView is the rendering of a service.Message. Everything is copied into strings/ints at
// render time, so a view never aliases library memory.
type msgView struct {
	ID              int    `json:"id"`
	Phone           string `json:"phone"`
	Ver             int    `json:"ver"`
	Serial          int    `json:"serial"`
	Sum             int    `json:"sum"`
	No              int    `json:"no"`
	Body            string `json:"body"`
	TerminalData    string `json:"terminalData"`
	PlatformData    string `json:"platformData"`
	PlatformSeq     int    `json:"platformSeq"`
	TerminalSeq     int    `json:"terminalSeq"`
	ActiveSend      bool   `json:"activeSend"`
	Complete        bool   `json:"complete"`
	PlatformCommand int    `json:"platformCommand"`
	Err             string `json:"err"`
	Command         int    `json:"command"`
	NoHeader        bool   `json:"noHeader,omitempty"` // JTMessage or Header was nil (error-only message)
}

func render(m *service.Message) msgView {
	x := &m.ExtensionFields
	v := msgView{
		TerminalData: hx(x.TerminalData), PlatformData: hx(x.PlatformData),
		PlatformSeq: int(x.PlatformSeq), TerminalSeq: int(x.TerminalSeq),
		ActiveSend: x.ActiveSend, Complete: x.SubcontractComplete,
		PlatformCommand: int(x.PlatformCommand), Err: errStr(x.Err), Command: int(m.Command),
	}
	if m.JTMessage == nil || m.JTMessage.Header == nil {
		v.NoHeader = true
		if m.JTMessage != nil {
			v.Body = hx(m.JTMessage.Body)
		}
		return v
	}
	h := m.JTMessage.Header
	v.ID, v.Phone, v.Ver, v.Serial = int(h.ID), h.TerminalPhoneNo, int(h.ProtocolVersion), int(h.SerialNumber)
	v.Sum, v.No, v.Body = int(h.SubPackageSum), int(h.SubPackageNo), hx(m.JTMessage.Body)
	return v
}

// ---------------------------------------------------------------- resnap

var (
	resnapAfter                                                 time.Duration
	resnapChecked, resnapDiffs, resnapInputDiffs, resnapPending atomic.Int64
)

// resnap re-renders m after -resnap-ms and reports when the rendering changed, i.e. when memory a
// callback was handed is modified afterwards. m is the library's own *Message for read events and
// our by-value copy for write events (whose slices and pointers still alias what they aliased).
// NOTE: under -race the second rendering may itself be reported when the library really does write
// to that memory concurrently; that report is then the finding.
func resnap(conn int, kind string, m *service.Message, first msgView) {
	if resnapAfter <= 0 {
		return
	}
	resnapPending.Add(1)
	time.AfterFunc(resnapAfter, func() {
		second := render(m)
		resnapChecked.Add(1)
		resnapPending.Add(-1)
		if second != first { // msgView is a comparable struct of scalars and strings
			fields, input := diffFields(first, second)
			resnapDiffs.Add(1)
			if input {
				resnapInputDiffs.Add(1)
			}
			emit(ev{"event": "resnap", "conn": conn, "kind": kind, "same": false, "fields": fields,
				"inputChanged": input, "first": first, "second": second})
		}
	})
}

// replySide are the fields the library fills in on the very same *Message when it later answers
// it (so for a read event they legitimately change). A change in any other field means the bytes
// or header the callback saw were overwritten afterwards: "inputChanged".
var replySide = map[string]bool{"platformData": true, "platformSeq": true, "platformCommand": true, "activeSend": true, "err": true}

func diffFields(a, b msgView) (fields []string, input bool) {
	va, vb, t := reflect.ValueOf(a), reflect.ValueOf(b), reflect.TypeOf(a)
	for i := 0; i < t.NumField(); i++ {
		if va.Field(i).Interface() != vb.Field(i).Interface() {
			name, _, _ := strings.Cut(t.Field(i).Tag.Get("json"), ",")
			fields = append(fields, name)
			input = input || !replySide[name]
		}
	}
	return fields, input
}

// ---------------------------------------------------------------- jt808: terminal eventer

var (
	connSeq             atomic.Int64
	slowRead, slowWrite time.Duration
)

// terminal is the per-connection TerminalEventer. The library calls the factory once per accepted
// connection, from the accept loop, so ids follow accept order.
type terminal struct{ id int }

func (t *terminal) OnJoinEvent(m *service.Message, key string, err error) {
	emit(ev{"event": "join", "conn": t.id, "key": key, "err": errStr(err), "msg": render(m)})
}
func (t *terminal) OnLeaveEvent(key string) { emit(ev{"event": "leave", "conn": t.id, "key": key}) }
func (t *terminal) OnNotSupportedEvent(m *service.Message) {
	emit(ev{"event": "notsupported", "conn": t.id, "msg": render(m)})
}
func (t *terminal) OnReadExecutionEvent(m *service.Message) {
	v := render(m)
	emit(ev{"event": "read", "conn": t.id, "msg": v})
	resnap(t.id, "read", m, v)
	time.Sleep(slowRead)
}
func (t *terminal) OnWriteExecutionEvent(m service.Message) {
	v := render(&m)
	emit(ev{"event": "write", "conn": t.id, "msg": v})
	resnap(t.id, "write", &m, v) // &m: this call's private copy, kept alive by the timer
	time.Sleep(slowWrite)
}

// ---------------------------------------------------------------- jt808: -parse-all handlers

type jtModel interface {
	service.JT808Handler
	String() string
}

// parseHandler is the README pattern: a handler that embeds a model value (the library uses it for
// HasReply/ReplyBody/ReplyProtocol exactly as it uses its default) and whose OnReadExecutionEvent
// parses every body into a model value and prints it. By default it parses into a fresh value per
// message (`var t model.T0x0200; t.Parse(msg.JTMessage)` as in README.md and example/simulator);
// with -parse-embedded it parses into the embedded value itself (as example/protocol/camera does),
// which the library's writer goroutine uses concurrently for ReplyBody.
type parseHandler struct {
	service.JT808Handler
	fresh    func() jtModel
	embedded bool
}

func (p *parseHandler) OnReadExecutionEvent(m *service.Message) {
	var t jtModel
	if p.embedded {
		t = p.JT808Handler.(jtModel)
	} else {
		t = p.fresh()
	}
	_ = t.Parse(m.JTMessage) // errors ignored; panics deliberately not recovered
	_ = t.String()
}
func (p *parseHandler) OnWriteExecutionEvent(service.Message) {}

var parseEmbedded bool

func mk[T any, PT interface {
	*T
	jtModel
}]() service.Handler {
	return &parseHandler{JT808Handler: PT(new(T)), fresh: func() jtModel { return PT(new(T)) }, embedded: parseEmbedded}
}

// parseAllHandlers mirrors service.createDefaultHandle entry by entry (same IDs, same model types,
// same zero values). Called once per connection by the library.
func parseAllHandlers() map[consts.JT808CommandType]service.Handler {
	return map[consts.JT808CommandType]service.Handler{
		consts.T0001GeneralRespond:            mk[model.T0x0001](),
		consts.T0100Register:                  mk[model.T0x0100](),
		consts.T0102RegisterAuth:              mk[model.T0x0102](),
		consts.T0002HeartBeat:                 mk[model.T0x0002](),
		consts.T0200LocationReport:            mk[model.T0x0200](),
		consts.T0704LocationBatchUpload:       mk[model.T0x0704](),
		consts.T0104QueryParameter:            mk[model.T0x0104](),
		consts.T0805CameraShootImmediately:    mk[model.T0x0805](),
		consts.T0800MultimediaEventInfoUpload: mk[model.T0x0800](),
		consts.T0801MultimediaDataUpload:      mk[model.T0x0801](),

		consts.P8003ReissueSubcontractingRequest: mk[model.P0x8003](),
		consts.P8103SetTerminalParams:            mk[model.P0x8103](),
		consts.P8104QueryTerminalParams:          mk[model.P0x8104](),
		consts.P8801CameraShootImmediateCommand:  mk[model.P0x8801](),

		consts.P9003QueryTerminalAudioVideoProperties: mk[model.P0x9003](),
		consts.T1003UploadAudioVideoAttr:              mk[model.T0x1003](),
		consts.T1005UploadPassengerFlow:               mk[model.T0x1005](),
		consts.P9101RealTimeAudioVideoRequest:         mk[model.P0x9101](),
		consts.P9102AudioVideoControl:                 mk[model.P0x9102](),
		consts.P9205QueryResourceList:                 mk[model.P0x9205](),
		consts.T1205UploadAudioVideoResourceList:      mk[model.T0x1205](),
		consts.P9206FileUploadInstructions:            mk[model.P0x9206](),
		consts.T1206FileUploadCompleteNotice:          mk[model.T0x1206](),
		consts.P9207FileUploadControl:                 mk[model.P0x9207](),

		consts.P9208AlarmAttachUpload:      mk[model.P0x9208](),
		consts.T1210AlarmAttachInfoMessage: mk[model.T0x1210](),
		consts.T1211FileInfoUpload:         mk[model.T0x1211](),
		consts.T1212FileUploadComplete:     mk[model.T0x1212](),
	}
}

// ---------------------------------------------------------------- jt808: active sends

// activeSendTwice: a caller that keeps one *ActiveMessage and sends it again as soon as the first call has returned (a
// periodic poll of the same terminal): the second call may start while the timer goroutine of the first, answered, call
// is still asleep.
func activeSendTwice(srv *service.GoJT808, tag, key string, id int, body []byte, timeoutMs int) {
	am := service.NewActiveMessage(key, consts.JT808CommandType(id), body, time.Duration(timeoutMs)*time.Millisecond)
	for k := 0; k < 2; k++ {
		t := tag
		if k == 1 {
			t = tag + "again"
		}
		emit(ev{"event": "active-start", "tag": t})
		start := time.Now()
		res := srv.SendActiveMessage(am)
		e := ev{"event": "active-result", "tag": t, "elapsed_ms": time.Since(start).Milliseconds(), "err": "", "nil": res == nil}
		if res != nil {
			v := render(res)
			e["err"], e["platformSeq"], e["respID"] = v.Err, v.PlatformSeq, v.ID
			e["isNotExist"] = errors.Is(res.ExtensionFields.Err, service.ErrNotExistKey)
			e["isOvertime"] = errors.Is(res.ExtensionFields.Err, service.ErrWriteDataOverTime)
		}
		emit(e)
	}
}

func activeSend(srv *service.GoJT808, tag, key string, id int, body []byte, timeoutMs int) {
	emit(ev{"event": "active-start", "tag": tag})
	start := time.Now()
	// 0 -> library default (3 s); negative -> the library starts no timeout goroutine at all.
	am := service.NewActiveMessage(key, consts.JT808CommandType(id), body, time.Duration(timeoutMs)*time.Millisecond)
	if timeoutMs == 0 {
		// the way nearly every caller under example/ builds it: a literal that leaves the time-out at its zero value
		am = &service.ActiveMessage{Key: key, Command: consts.JT808CommandType(id), Body: body}
	}
	res := srv.SendActiveMessage(am)
	e := ev{"event": "active-result", "tag": tag, "elapsed_ms": time.Since(start).Milliseconds(),
		"err": "", "platformSeq": 0, "respID": 0, "respSerial": 0, "respBody": "", "platformData": "", "nil": res == nil}
	if res != nil {
		v := render(res)
		e["err"], e["platformSeq"], e["respID"], e["respSerial"] = v.Err, v.PlatformSeq, v.ID, v.Serial
		e["respBody"], e["platformData"], e["msg"] = v.Body, v.PlatformData, v
		// the exported sentinels are part of the API: callers tell the outcomes apart with errors.Is
		e["isNotExist"] = errors.Is(res.ExtensionFields.Err, service.ErrNotExistKey)
		e["isOvertime"] = errors.Is(res.ExtensionFields.Err, service.ErrWriteDataOverTime)
		e["isWriteFail"] = errors.Is(res.ExtensionFields.Err, service.ErrWriteDataFail)
	}
	emit(e)
}

// ---------------------------------------------------------------- attachment: file eventer

var stageNames = map[attachment.ProgressStage]string{
	attachment.ProgressStageInit: "init", attachment.ProgressStageStart: "start",
	attachment.ProgressStageStreamData: "stream-data", attachment.ProgressStageSupplementary: "supplementary",
	attachment.ProgressStageStreamDataComplete: "stream-data-complete", attachment.ProgressStageComplete: "complete",
	attachment.ProgressStageSuccessQuit: "success-quit", attachment.ProgressStageFailQuit: "fail-quit",
}

// fileEventer logs every OnEvent and then hands the same *PackageProgress to inner (the library's
// default handler) unless inner is nil.
type fileEventer struct {
	id    int
	inner attachment.FileEventer
	quiet bool // -default-files: pass through without logging
}

func (f *fileEventer) OnEvent(p *attachment.PackageProgress) {
	if f.quiet {
		if f.inner != nil {
			f.inner.OnEvent(p)
		}
		return
	}
	names := make([]string, 0, len(p.Record))
	for name := range p.Record {
		names = append(names, name)
	}
	sort.Strings(names)
	record := make([]ev, 0, len(names))
	for _, name := range names {
		pk := p.Record[name]
		if pk == nil {
			record = append(record, ev{"name": hx([]byte(name)), "nil": true})
			continue
		}
		sum := ""
		if len(pk.StreamBody) > 0 {
			s := sha256.Sum256(pk.StreamBody)
			sum = hx(s[:])
		}
		record = append(record, ev{"name": hx([]byte(name)), "fileName": hx([]byte(pk.FileName)),
			"fileSize": pk.FileSize, "currentSize": pk.CurrentSize, "complete": pk.CurrentSize == pk.FileSize,
			"bodyLen": len(pk.StreamBody), "bodySha256": sum, "offset": pk.Offset, "segments": len(pk.OffsetRecord)})
	}
	x := &p.ExtensionFields
	e := ev{"event": "file-event", "conn": f.id, "stage": int(p.ProgressStage), "stageName": stageNames[p.ProgressStage],
		"record": record, "current": "", "err": errStr(x.Err), "platformData": hx(x.RecentPlatformData),
		"astype": int(x.ActiveSafetyType), "hasTerminalMsg": x.RecentTerminalMessage != nil, "terminalID": 0, "phone": "", "probe": f.id == 1}
	if x.CurrentPackage != nil {
		e["current"] = hx([]byte(x.CurrentPackage.FileName))
	}
	if m := x.RecentTerminalMessage; m != nil && m.Header != nil {
		e["terminalID"], e["phone"] = int(m.Header.ID), m.Header.TerminalPhoneNo
	}
	emit(e)
	if f.inner != nil {
		f.inner.OnEvent(p)
	}
	if p.ProgressStage == attachment.ProgressStageSuccessQuit || p.ProgressStage == attachment.ProgressStageFailQuit {
		emit(ev{"event": "file-saved", "conn": f.id, "probe": f.id == 1}) // the default handler has returned: files are on disk
	}
}

// ---------------------------------------------------------------- main

func main() {
	var (
		mode      = flag.String("mode", "jt808", "jt808|attach")
		addr      = flag.String("addr", "", "listen address, 127.0.0.1:PORT")
		filter    = flag.Bool("filter", true, "jt808: service.WithHasSubcontract")
		parseAll  = flag.Bool("parse-all", false, "jt808: README-style custom handlers that Parse+String every body")
		slowR     = flag.Int("slow-read-ms", 0, "jt808: sleep in TerminalEventer.OnReadExecutionEvent")
		slowW     = flag.Int("slow-write-ms", 0, "jt808: sleep in TerminalEventer.OnWriteExecutionEvent")
		resnapMs  = flag.Int("resnap-ms", 0, "jt808: re-render every message this much later and report differences")
		asType    = flag.Int("astype", int(consts.ActiveSafetyJS), "attach: consts.ActiveSafetyType")
		cwd       = flag.String("cwd", "", "chdir here before starting")
		defFiles  = flag.Bool("default-files", false, "attach: library default FileEventer only, no file-event logging")
		delegate  = flag.Bool("delegate", true, "attach: after logging, call the library default FileEventer")
		probeWait = flag.Int("probe-ms", 5000, "how long to wait for the listener to come up")
	)
	flag.BoolVar(&parseEmbedded, "parse-embedded", false, "jt808 -parse-all: Parse into the embedded model value instead of a fresh one")
	flag.Parse()

	// Protocol lines go to a duplicate of fd 1; whatever the libraries fmt.Println goes to /dev/null.
	fd, err := syscall.Dup(int(os.Stdout.Fd()))
	if err != nil {
		fmt.Fprintln(os.Stderr, "dup stdout:", err)
		os.Exit(3)
	}
	out = os.NewFile(uintptr(fd), "protocol-out")
	if null, err := os.OpenFile(os.DevNull, os.O_WRONLY, 0); err == nil {
		os.Stdout = null
	}
	slog.SetDefault(slog.New(slog.NewTextHandler(io.Discard, nil)))

	if *addr == "" {
		fatal("-addr is required")
	}
	if *cwd != "" {
		if err := os.Chdir(*cwd); err != nil {
			fatal("chdir: " + err.Error())
		}
	}
	slowRead, slowWrite = time.Duration(*slowR)*time.Millisecond, time.Duration(*slowW)*time.Millisecond
	resnapAfter = time.Duration(*resnapMs) * time.Millisecond

	var srv *service.GoJT808
	runReturned := make(chan struct{})
	switch *mode {
	case "jt808":
		opts := []service.Option{
			service.WithHostPorts(*addr), service.WithNetwork("tcp"), service.WithHasSubcontract(*filter),
			service.WithCustomTerminalEventer(func() service.TerminalEventer {
				return &terminal{id: int(connSeq.Add(1))}
			}),
		}
		if *parseAll {
			opts = append(opts, service.WithCustomHandleFunc(parseAllHandlers))
		}
		srv = service.New(opts...)
		go func() { srv.Run(); close(runReturned) }()
	case "attach":
		opts := []attachment.Option{
			attachment.WithHostPorts(*addr), attachment.WithNetwork("tcp"),
			attachment.WithActiveSafetyType(consts.ActiveSafetyType(*asType)),
		}
		// o.FileEventerFunc still holds the library default factory when this option is applied.
		// Connection 1 is always sysd's own readiness probe (nobody else knows the server is up
		// yet). It is never delegated: the library default handler crashes the process on a
		// connection that closes before sending a JT808 message, and the probe is the harness's
		// artefact, not a test subject.
		opts = append(opts, attachment.Option{F: func(o *attachment.Options) {
			def := o.FileEventerFunc
			o.FileEventerFunc = func() attachment.FileEventer {
				f := &fileEventer{id: int(connSeq.Add(1)), quiet: *defFiles}
				if (*delegate || *defFiles) && f.id != 1 {
					f.inner = def() // opens ./file.log, as the library does per connection
				}
				return f
			}
		}})
		as := attachment.New(opts...)
		go func() { as.Run(); close(runReturned) }()
	default:
		fatal("unknown -mode " + *mode)
	}

	// Run() blocks and reports nothing: probe by dialing. The probe is itself a connection (conn 1
	// in jt808 mode: a "leave" with an empty key and no join; in attach mode one quit file-event).
	deadline := time.Now().Add(time.Duration(*probeWait) * time.Millisecond)
	for {
		select {
		case <-runReturned: // Run only returns when it could not listen
			fatal("Run returned: cannot listen on " + *addr)
		default:
		}
		if c, err := net.DialTimeout("tcp", *addr, 200*time.Millisecond); err == nil {
			// Our own server answers an accepted connection by calling the per-connection factory,
			// which bumps connSeq. If it stays 0 somebody else owns the port.
			for i := 0; i < 200 && connSeq.Load() == 0; i++ {
				select {
				case <-runReturned:
					fatal("Run returned: cannot listen on " + *addr + " (in use)")
				case <-time.After(5 * time.Millisecond):
				}
			}
			_ = c.Close()
			if connSeq.Load() == 0 {
				fatal("something else is listening on " + *addr)
			}
			break
		}
		if time.Now().After(deadline) {
			fatal("listener did not come up on " + *addr)
		}
		time.Sleep(5 * time.Millisecond)
	}
	emit(ev{"event": "listening", "addr": *addr, "mode": *mode, "pid": os.Getpid()})

	quit := func() {
		emit(ev{"event": "resnap-summary", "checked": resnapChecked.Load(), "diffs": resnapDiffs.Load(),
			"input_diffs": resnapInputDiffs.Load(), "pending": resnapPending.Load()})
		os.Exit(0)
	}
	in := bufio.NewReaderSize(os.Stdin, 1<<16)
	for {
		line, rerr := in.ReadString('\n')
		if f := strings.Fields(line); len(f) > 0 {
			switch f[0] {
			case "quit":
				quit()
			case "stats":
				emit(ev{"event": "stats", "goroutines": runtime.NumGoroutine(), "resnap_checked": resnapChecked.Load(),
					"resnap_diffs": resnapDiffs.Load(), "resnap_input_diffs": resnapInputDiffs.Load(), "conns": connSeq.Load()})
			case "sendtwice":
				if len(f) == 6 {
					id, _ := strconv.Atoi(f[3])
					ms, _ := strconv.Atoi(f[5])
					go activeSendTwice(srv, f[1], f[2], id, nil, ms)
				}
			case "send":
				if err := cmdSend(srv, f); err != nil {
					emit(ev{"event": "bad-command", "line": strings.TrimSpace(line), "err": err.Error()})
				}
			default:
				emit(ev{"event": "bad-command", "line": strings.TrimSpace(line), "err": "unknown command"})
			}
		}
		if rerr != nil { // EOF: the parent is gone
			quit()
		}
	}
}

// cmdSend parses `send <tag> <key> <commandID> <bodyhex|-> <timeout_ms>` and starts the call in a
// new goroutine (SendActiveMessage blocks until reply or timeout, possibly forever).
func cmdSend(srv *service.GoJT808, f []string) error {
	if srv == nil {
		return fmt.Errorf("send needs -mode jt808")
	}
	if len(f) != 6 {
		return fmt.Errorf("want: send <tag> <key> <commandID> <bodyhex|-> <timeout_ms>")
	}
	id, err := strconv.Atoi(f[3])
	if err != nil || id < 0 || id > 0xffff {
		return fmt.Errorf("bad command id %q", f[3])
	}
	var body []byte
	if f[4] != "-" {
		if body, err = hex.DecodeString(f[4]); err != nil {
			return fmt.Errorf("bad body hex: %v", err)
		}
	}
	ms, err := strconv.Atoi(f[5])
	if err != nil {
		return fmt.Errorf("bad timeout %q", f[5])
	}
	go activeSend(srv, f[1], f[2], id, body, ms)
	return nil
}
