// Package sock holds the client side of socket-level checks: Server starts and talks to a
// cmd/sysd subprocess (JSON event lines on its stdout, command lines on its stdin) and Client is a
// raw TCP client with JT/T 808 frame splitting. Neither type starts a goroutine per call; a Server
// owns exactly one reader goroutine which ends when the subprocess does.
package sock

import (
	"bufio"
	"encoding/json"
	"errors"
	"fmt"
	"io"
	"net"
	"os/exec"
	"strconv"
	"sync"
	"syscall"
	"time"
)

// FreePort asks the kernel for an unused TCP port on 127.0.0.1 (0 on failure). The port is
// released again before returning, so a collision with another process is possible but unlikely.
func FreePort() int {
	l, err := net.Listen("tcp", "127.0.0.1:0")
	if err != nil {
		return 0
	}
	defer l.Close()
	return l.Addr().(*net.TCPAddr).Port
}

// ---------------------------------------------------------------- Server

// Event is one parsed JSON line of the subprocess. Numbers are float64 (encoding/json); use Int.
type Event = map[string]any

const eventBuf = 1 << 17 // capacity of Events() (>= 100000)

// Server is a running sysd subprocess.
type Server struct {
	addr   string
	cmd    *exec.Cmd
	stdin  io.WriteCloser
	inMu   sync.Mutex // serialises Command writes
	events chan Event
	stderr *tail
	done   chan struct{} // closed after the process has been reaped

	mu     sync.Mutex // guards everything below; cond is signalled on every change
	cond   *sync.Cond
	log    []Event
	cursor int // next index WaitEvent looks at
	exited bool
	code   int
}

// StartServer runs `bin -addr 127.0.0.1:<free port> args...` in its own process group and waits up
// to 10 s for its "listening" line. If the process dies before listening (e.g. the port was taken
// in the meantime) it is retried with another port, three times in all.
func StartServer(bin string, args ...string) (*Server, error) {
	var last error
	for try := 0; try < 3; try++ {
		s, err := startOnce(bin, args)
		if err == nil {
			return s, nil
		}
		last = err
	}
	return nil, last
}

func startOnce(bin string, args []string) (*Server, error) {
	port := FreePort()
	if port == 0 {
		return nil, errors.New("sock: no free port")
	}
	s := &Server{addr: "127.0.0.1:" + strconv.Itoa(port), events: make(chan Event, eventBuf),
		stderr: &tail{max: 64 << 10}, done: make(chan struct{})}
	s.cond = sync.NewCond(&s.mu)
	s.cmd = exec.Command(bin, append([]string{"-addr", s.addr}, args...)...)
	s.cmd.SysProcAttr = &syscall.SysProcAttr{Setpgid: true}
	s.cmd.Stderr = s.stderr
	var err error
	if s.stdin, err = s.cmd.StdinPipe(); err != nil {
		return nil, err
	}
	stdout, err := s.cmd.StdoutPipe()
	if err != nil {
		return nil, err
	}
	if err := s.cmd.Start(); err != nil {
		return nil, err
	}
	go s.reader(stdout)
	if _, ok := s.WaitFor(IsEvent("listening"), 10*time.Second); !ok {
		_, code, tail := s.ExitInfo()
		s.Stop()
		return nil, fmt.Errorf("sock: %s did not report listening on %s (exit %d, events %v, stderr %q)",
			bin, s.addr, code, s.Snapshot(), tail)
	}
	return s, nil
}

// reader is the only goroutine of a Server: it appends every stdout line to the log, offers it to
// Events() without ever blocking, and finally reaps the process.
func (s *Server) reader(stdout io.Reader) {
	r := bufio.NewReaderSize(stdout, 1<<16)
	for {
		line, err := r.ReadBytes('\n') // lines may be long (hex bodies): no Scanner limit
		if len(line) > 1 {
			var e Event
			if json.Unmarshal(line, &e) != nil || e == nil {
				e = Event{"event": "garbage", "line": string(line)}
			}
			s.mu.Lock()
			s.log = append(s.log, e)
			s.cond.Broadcast()
			s.mu.Unlock()
			for sent := false; !sent; { // full buffer: drop the oldest, never block
				select {
				case s.events <- e:
					sent = true
				default:
					select {
					case <-s.events:
					default:
					}
				}
			}
		}
		if err != nil {
			break
		}
	}
	_ = s.cmd.Wait() // stdout is at EOF, so Wait does not race with the pipe
	s.mu.Lock()
	s.exited, s.code = true, s.cmd.ProcessState.ExitCode() // -1 when killed by a signal (or never reaped)
	s.cond.Broadcast()
	s.mu.Unlock()
	close(s.events)
	close(s.done)
}

// Addr is the server's listen address, "127.0.0.1:port".
func (s *Server) Addr() string { return s.addr }

// Events delivers every event once, in order; when more than its capacity (131072) is pending the
// oldest are dropped. It is closed when the process has exited. The log is independent of it.
func (s *Server) Events() <-chan Event { return s.events }

// Command writes one command line to the subprocess's stdin.
func (s *Server) Command(line string) error {
	s.inMu.Lock()
	defer s.inMu.Unlock()
	_, err := io.WriteString(s.stdin, line+"\n")
	return err
}

// Len is the number of events logged so far; Snapshot copies the log (the events are shared and
// must be treated as read-only).
func (s *Server) Len() int {
	s.mu.Lock()
	defer s.mu.Unlock()
	return len(s.log)
}

func (s *Server) Snapshot() []Event {
	s.mu.Lock()
	defer s.mu.Unlock()
	return append([]Event(nil), s.log...)
}

// waitFrom blocks until some event at index >= start satisfies pred (returning it and its index),
// the timeout passes, or the process has exited with nothing left to scan.
func (s *Server) waitFrom(start int, pred func(Event) bool, timeout time.Duration) (Event, int, bool) {
	deadline := time.Now().Add(timeout)
	timer := time.AfterFunc(timeout, func() { // wake the waiter at the deadline
		s.mu.Lock()
		s.cond.Broadcast()
		s.mu.Unlock()
	})
	defer timer.Stop()
	s.mu.Lock()
	defer s.mu.Unlock()
	if start < 0 {
		start = 0
	}
	for i := start; ; {
		for ; i < len(s.log); i++ {
			if pred(s.log[i]) {
				return s.log[i], i, true
			}
		}
		if s.exited || !time.Now().Before(deadline) {
			return nil, i, false
		}
		s.cond.Wait()
	}
}

// WaitFor scans the whole log from index 0 and then waits for new events.
func (s *Server) WaitFor(pred func(Event) bool, timeout time.Duration) (Event, bool) {
	e, _, ok := s.waitFrom(0, pred, timeout)
	return e, ok
}

// WaitForFrom is WaitFor starting at log index start; next is the index after the match (or the
// log length reached when nothing matched), suitable as the next start.
func (s *Server) WaitForFrom(start int, pred func(Event) bool, timeout time.Duration) (e Event, next int, ok bool) {
	e, i, ok := s.waitFrom(start, pred, timeout)
	if ok {
		i++
	}
	return e, i, ok
}

// WaitEvent consumes events from the Server's own cursor: it returns the first event at or after
// the cursor that satisfies pred and moves the cursor behind it, so consecutive calls see events in
// order and never the same one twice. On timeout the cursor stays where it was. Everything it
// skips remains in the log (Snapshot).
func (s *Server) WaitEvent(pred func(Event) bool, timeout time.Duration) (Event, bool) {
	s.mu.Lock()
	start := s.cursor
	s.mu.Unlock()
	e, i, ok := s.waitFrom(start, pred, timeout)
	if ok {
		s.mu.Lock()
		if i+1 > s.cursor {
			s.cursor = i + 1
		}
		s.mu.Unlock()
	}
	return e, ok
}

// Collect waits until n events at index >= start satisfy pred or the timeout passes and returns
// those found so far, in order. n <= 0 means: wait the whole timeout and return all matches.
func (s *Server) Collect(start int, pred func(Event) bool, n int, timeout time.Duration) []Event {
	var got []Event
	deadline := time.Now().Add(timeout)
	for n <= 0 || len(got) < n {
		e, next, ok := s.WaitForFrom(start, pred, time.Until(deadline))
		if !ok {
			break
		}
		got, start = append(got, e), next
	}
	return got
}

// Alive reports whether the process has not exited yet.
func (s *Server) Alive() bool {
	s.mu.Lock()
	defer s.mu.Unlock()
	return !s.exited
}

// Ping asks the server process for a `stats` line and waits for it: true means the process was alive and responsive
// AFTER everything it had emitted before. (A goroutine panic lets deferred callbacks emit their events first and kills
// the process a moment later, so "the expected event arrived" does not imply "the server survived".)
func (s *Server) Ping(timeout time.Duration) bool {
	if !s.Alive() {
		return false
	}
	mark := s.Len()
	if err := s.Command("stats"); err != nil {
		return false
	}
	_, _, ok := s.WaitForFrom(mark, func(e Event) bool { return Str(e, "event") == "stats" }, timeout)
	return ok && s.Alive()
}

// WaitExit waits for the process to exit by itself.
func (s *Server) WaitExit(timeout time.Duration) bool {
	select {
	case <-s.done:
		return true
	case <-time.After(timeout):
		return false
	}
}

// ExitInfo: code is the exit status (2 for a Go panic, -1 when killed by a signal); stderrTail is
// the last 64 KiB of stderr.
func (s *Server) ExitInfo() (exited bool, code int, stderrTail string) {
	s.mu.Lock()
	defer s.mu.Unlock()
	return s.exited, s.code, s.stderr.String()
}

// Stop asks the process to quit, waits 2 s, then kills its whole process group, and waits until it
// has been reaped. It may be called more than once.
func (s *Server) Stop() {
	_ = s.Command("quit")
	select {
	case <-s.done:
	case <-time.After(2 * time.Second):
	}
	if s.cmd.Process != nil {
		_ = syscall.Kill(-s.cmd.Process.Pid, syscall.SIGKILL) // ESRCH when already gone
	}
	<-s.done
	s.inMu.Lock()
	_ = s.stdin.Close()
	s.inMu.Unlock()
}

// tail is an io.Writer keeping the last max bytes.
type tail struct {
	mu  sync.Mutex
	max int
	b   []byte
}

func (t *tail) Write(p []byte) (int, error) {
	t.mu.Lock()
	defer t.mu.Unlock()
	t.b = append(t.b, p...)
	if len(t.b) > t.max {
		t.b = append([]byte(nil), t.b[len(t.b)-t.max:]...)
	}
	return len(p), nil
}

func (t *tail) String() string {
	t.mu.Lock()
	defer t.mu.Unlock()
	return string(t.b)
}

// ---------------------------------------------------------------- event helpers

// IsEvent matches events whose "event" field is name.
func IsEvent(name string) func(Event) bool {
	return func(e Event) bool { return e["event"] == name }
}

// IsConnEvent matches events named name that belong to connection conn.
func IsConnEvent(name string, conn int) func(Event) bool {
	return func(e Event) bool { return e["event"] == name && Int(e, "conn") == conn }
}

// Str, Int, Bool and Sub read a field of an event (zero value when absent or of another type).
func Str(e Event, k string) string { v, _ := e[k].(string); return v }
func Bool(e Event, k string) bool  { v, _ := e[k].(bool); return v }
func Int(e Event, k string) int {
	switch v := e[k].(type) {
	case float64:
		return int(v)
	case int:
		return v
	}
	return 0
}
func Sub(e Event, k string) Event { v, _ := e[k].(map[string]any); return v }

// ---------------------------------------------------------------- Client

// Client is a raw TCP client. Reads are done inline under a deadline (no background goroutine);
// bytes received but not yet returned are kept for the next call. The read-side methods are
// serialised by a mutex; Send may be used concurrently with them.
type Client struct {
	c   *net.TCPConn
	rmu sync.Mutex
	buf []byte // received, not yet handed out
	eof bool   // the peer closed or reset (sticky)
	// Junk collects bytes ReadFrames skipped because they were outside any 0x7e ... 0x7e frame.
	Junk []byte
}

// Dial connects to addr with TCP_NODELAY on, so every Send is a segment of its own.
func Dial(addr string) (*Client, error) {
	c, err := net.DialTimeout("tcp", addr, 5*time.Second)
	if err != nil {
		return nil, err
	}
	t := c.(*net.TCPConn)
	_ = t.SetNoDelay(true)
	return &Client{c: t}, nil
}

// LocalAddr is the client's own address.
func (c *Client) LocalAddr() string { return c.c.LocalAddr().String() }

// Send writes b (5 s write deadline, so a server that stopped reading cannot hang the caller).
func (c *Client) Send(b []byte) error {
	_ = c.c.SetWriteDeadline(time.Now().Add(5 * time.Second))
	_, err := c.c.Write(b)
	return err
}

// SendChunks writes the chunks one by one, sleeping pause between them.
func (c *Client) SendChunks(chunks [][]byte, pause time.Duration) error {
	for i, ch := range chunks {
		if i > 0 && pause > 0 {
			time.Sleep(pause)
		}
		if err := c.Send(ch); err != nil {
			return err
		}
	}
	return nil
}

// fill does one Read with the given deadline and appends to buf; false on timeout, EOF or error.
func (c *Client) fill(deadline time.Time) bool {
	if c.eof {
		return false
	}
	_ = c.c.SetReadDeadline(deadline)
	tmp := make([]byte, 64<<10)
	n, err := c.c.Read(tmp)
	c.buf = append(c.buf, tmp[:n]...)
	if err != nil {
		var ne net.Error
		if !(errors.As(err, &ne) && ne.Timeout()) {
			c.eof = true // EOF, reset, or closed locally
		}
		return n > 0
	}
	return true
}

// takeFrames cuts complete frames (0x7e, non-empty interior without 0x7e, 0x7e) off the front of
// buf. Of two adjacent 0x7e the first is dropped (it ended nothing) and the second opens a frame.
func (c *Client) takeFrames() [][]byte {
	var out [][]byte
	for {
		i := 0
		for i < len(c.buf) && c.buf[i] != 0x7e {
			i++
		}
		c.Junk = append(c.Junk, c.buf[:i]...)
		c.buf = c.buf[i:]
		j := 1
		for j < len(c.buf) && c.buf[j] != 0x7e {
			j++
		}
		if j >= len(c.buf) { // no closing delimiter yet
			return out
		}
		if j == 1 { // "7e7e"
			c.Junk = append(c.Junk, 0x7e)
			c.buf = c.buf[1:]
			continue
		}
		out = append(out, append([]byte(nil), c.buf[:j+1]...))
		c.buf = c.buf[j+1:]
	}
}

// ReadFrames reads until at least min complete frames have arrived, the timeout passes or the peer
// closes, and returns all complete frames received so far (possibly more or fewer than min).
// min <= 0 returns what is already there after one non-blocking look.
func (c *Client) ReadFrames(min int, timeout time.Duration) [][]byte {
	c.rmu.Lock()
	defer c.rmu.Unlock()
	deadline := time.Now().Add(timeout)
	if min <= 0 {
		c.fill(time.Now().Add(time.Millisecond))
	}
	frames := c.takeFrames()
	for len(frames) < min && time.Now().Before(deadline) && c.fill(deadline) {
		frames = append(frames, c.takeFrames()...)
	}
	return frames
}

// ReadAvailable returns everything (leftover included) received until the timeout passes or the
// peer closes; it always waits the full timeout unless the peer closes first.
func (c *Client) ReadAvailable(timeout time.Duration) []byte {
	c.rmu.Lock()
	defer c.rmu.Unlock()
	deadline := time.Now().Add(timeout)
	for time.Now().Before(deadline) && c.fill(deadline) {
	}
	b := c.buf
	c.buf = nil
	return b
}

// Closed reports whether the peer closed (EOF) or reset the connection within timeout. Data that
// arrives meanwhile is kept for the next ReadFrames/ReadAvailable.
func (c *Client) Closed(timeout time.Duration) bool {
	c.rmu.Lock()
	defer c.rmu.Unlock()
	deadline := time.Now().Add(timeout)
	for !c.eof && time.Now().Before(deadline) && c.fill(deadline) {
	}
	return c.eof
}

// Close closes normally (FIN); Reset closes with SO_LINGER 0, which sends RST; CloseWrite half-closes.
func (c *Client) Close() error { return c.c.Close() }
func (c *Client) Reset() error {
	_ = c.c.SetLinger(0)
	return c.c.Close()
}
func (c *Client) CloseWrite() error { return c.c.CloseWrite() }
