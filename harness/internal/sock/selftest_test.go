package sock_test

import (
	"bytes"
	"encoding/binary"
	"encoding/hex"
	"os"
	"path/filepath"
	"strings"
	"testing"
	"time"

	"github.com/cuteLittleDevil/go-jt808/protocol/model"
	"github.com/cuteLittleDevil/go-jt808/protocol/utils"
	"github.com/cuteLittleDevil/go-jt808/shared/consts"
	"github.com/cuteLittleDevil/go-jt808/terminal"

	"verif/harness/internal/sock"
)

// sysdBin returns $SYSD_BIN (a built cmd/sysd); the self-tests build nothing themselves.
func sysdBin(t *testing.T) string {
	bin := os.Getenv("SYSD_BIN")
	if bin == "" {
		t.Skip("SYSD_BIN not set")
	}
	return bin
}

func mustHex(s string) []byte {
	b, err := hex.DecodeString(s)
	if err != nil {
		panic(err)
	}
	return b
}

// TestSelfJT808: heartbeat in, general response out, join/read/write events, an active send that
// times out, leave on close, clean quit.
func TestSelfJT808(t *testing.T) {
	s, err := sock.StartServer(sysdBin(t), "-mode", "jt808", "-parse-all")
	if err != nil {
		t.Fatal(err)
	}
	defer s.Stop()
	c, err := sock.Dial(s.Addr())
	if err != nil {
		t.Fatal(err)
	}
	defer c.Close()

	if err := c.Send(mustHex("7e000200000123456789017fff0a7e")); err != nil {
		t.Fatal(err)
	}
	frames := c.ReadFrames(1, 2*time.Second)
	if len(frames) != 1 || !strings.HasPrefix(hex.EncodeToString(frames[0]), "7e8001") {
		t.Fatalf("want one 7e8001.. frame, got %x", frames)
	}
	t.Logf("reply %x", frames[0])

	var conn int
	for _, name := range []string{"join", "read", "write"} {
		e, ok := s.WaitFor(sock.IsEvent(name), 2*time.Second)
		if !ok {
			t.Fatalf("no %q event; log: %v", name, s.Snapshot())
		}
		conn = sock.Int(e, "conn")
		m := sock.Sub(e, "msg")
		if sock.Int(m, "id") != 2 || sock.Str(m, "phone") != "12345678901" || sock.Int(m, "serial") != 0x7fff {
			t.Errorf("%s: unexpected msg %v", name, m)
		}
		if name == "join" && (sock.Str(e, "key") != "12345678901" || sock.Str(e, "err") != "") {
			t.Errorf("join: %v", e)
		}
		if name == "write" && sock.Str(m, "platformData") != hex.EncodeToString(frames[0]) {
			t.Errorf("write event platformData %q differs from the frame on the wire %x", sock.Str(m, "platformData"), frames[0])
		}
	}

	// Platform command 0x8103 with a 500 ms timeout to a terminal that never answers.
	start := s.Len()
	if err := s.Command("send t1 12345678901 33027 - 500"); err != nil {
		t.Fatal(err)
	}
	if f := c.ReadFrames(1, 2*time.Second); len(f) != 1 || !strings.HasPrefix(hex.EncodeToString(f[0]), "7e8103") {
		t.Errorf("want the 0x8103 command on the wire, got %x", f)
	}
	isRes := func(e sock.Event) bool { return e["event"] == "active-result" && e["tag"] == "t1" }
	e, _, ok := s.WaitForFrom(start, isRes, 1500*time.Millisecond)
	if !ok {
		t.Fatalf("no active-result; log: %v", s.Snapshot())
	}
	if el := sock.Int(e, "elapsed_ms"); !strings.Contains(sock.Str(e, "err"), "overtime") || el < 450 || el > 1200 {
		t.Errorf("active-result: want a timeout after ~500 ms, got %v", e)
	}
	if _, ok := s.WaitFor(sock.IsEvent("active-start"), time.Second); !ok {
		t.Error("no active-start event")
	}

	// Unknown key: immediate error.
	_ = s.Command("send t2 nosuchkey 33027 - 500")
	if e, ok := s.WaitFor(func(e sock.Event) bool { return e["tag"] == "t2" && e["event"] == "active-result" }, time.Second); !ok ||
		!strings.Contains(sock.Str(e, "err"), "key not exist") {
		t.Errorf("t2: %v %v", e, ok)
	}

	// WaitEvent consumes in order: the first "leave" is the readiness probe's (conn 1, empty key).
	if e, ok := s.WaitEvent(sock.IsEvent("leave"), time.Second); !ok || sock.Str(e, "key") != "" {
		t.Errorf("probe leave: %v %v", e, ok)
	}
	_ = c.Close()
	if e, ok := s.WaitEvent(sock.IsEvent("leave"), 2*time.Second); !ok || sock.Str(e, "key") != "12345678901" || sock.Int(e, "conn") != conn {
		t.Errorf("client leave: %v %v", e, ok)
	}

	_ = s.Command("stats")
	if e, ok := s.WaitFor(sock.IsEvent("stats"), time.Second); !ok || sock.Int(e, "goroutines") < 1 {
		t.Errorf("stats: %v %v", e, ok)
	} else {
		t.Logf("stats %v", e)
	}
	if !s.Alive() {
		t.Error("server died")
	}
	s.Stop()
	if exited, code, tail := s.ExitInfo(); !exited || code != 0 {
		t.Errorf("quit: exited=%v code=%d stderr=%q", exited, code, tail)
	}
	if _, ok := s.WaitFor(sock.IsEvent("resnap-summary"), 0); !ok {
		t.Error("no resnap-summary on quit")
	}
	for range s.Events() { // closed after exit: must terminate
	}
}

// TestSelfResnap: the library answers a heartbeat by filling the reply fields of the very *Message
// it gave to OnReadExecutionEvent, so -resnap-ms must report exactly that (reply-side fields only).
// With a -race build of sysd the deliberate late read is itself reported (exit status 66): tolerated.
func TestSelfResnap(t *testing.T) {
	s, err := sock.StartServer(sysdBin(t), "-mode", "jt808", "-resnap-ms", "50")
	if err != nil {
		t.Fatal(err)
	}
	defer s.Stop()
	c, err := sock.Dial(s.Addr())
	if err != nil {
		t.Fatal(err)
	}
	defer c.Close()
	_ = c.Send(mustHex("7e000200000123456789017fff0a7e"))
	e, ok := s.WaitFor(sock.IsEvent("resnap"), 2*time.Second)
	if !ok || sock.Bool(e, "same") || sock.Bool(e, "inputChanged") || sock.Str(e, "kind") != "read" {
		t.Fatalf("resnap: %v %v", e, ok)
	}
	t.Logf("resnap fields %v", e["fields"])
	s.Stop()
	if _, ok := s.WaitFor(sock.IsEvent("resnap-summary"), 0); !ok {
		t.Error("no resnap-summary on quit")
	}
	if _, code, _ := s.ExitInfo(); code != 0 && code != 66 {
		t.Errorf("exit code %d", code)
	}
}

// TestSelfClientFrames exercises frame splitting and close detection against a local echo-less peer.
func TestSelfClientFrames(t *testing.T) {
	s, err := sock.StartServer(sysdBin(t), "-mode", "jt808")
	if err != nil {
		t.Fatal(err)
	}
	defer s.Stop()
	c, err := sock.Dial(s.Addr())
	if err != nil {
		t.Fatal(err)
	}
	hb := mustHex("7e000200000123456789017fff0a7e")
	// Two heartbeats, the second one split in the middle: two replies expected.
	if err := c.SendChunks([][]byte{hb, hb[:7], hb[7:]}, 20*time.Millisecond); err != nil {
		t.Fatal(err)
	}
	if f := c.ReadFrames(2, 2*time.Second); len(f) != 2 {
		t.Errorf("want 2 reply frames, got %x", f)
	}
	if c.Closed(100 * time.Millisecond) {
		t.Error("server closed unexpectedly")
	}
	// A frame with a bad checksum makes the server drop the connection.
	_ = c.Send(mustHex("7e000200000123456789017fffff7e"))
	if !c.Closed(2 * time.Second) {
		t.Error("server did not close after a corrupt frame")
	}
	if b := c.ReadAvailable(10 * time.Millisecond); len(b) != 0 {
		t.Errorf("unexpected trailing bytes %x", b)
	}
	_ = c.Reset()
}

// TestSelfAttach starts the attachment server and connects/closes once. The library's default
// file handler dereferences a nil RecentTerminalMessage when a connection closes before any
// JT808 message arrived, which kills the whole server; the self-test tolerates and reports it.
func TestSelfAttach(t *testing.T) {
	for _, delegate := range []string{"true", "false"} {
		dir := t.TempDir()
		s, err := sock.StartServer(sysdBin(t), "-mode", "attach", "-cwd", dir, "-delegate="+delegate)
		if err != nil {
			t.Fatalf("delegate=%s: %v", delegate, err)
		}
		c, err := sock.Dial(s.Addr())
		if err == nil {
			_ = c.Close()
		}
		s.WaitExit(500 * time.Millisecond)
		exited, code, tail := s.ExitInfo()
		evs := s.Collect(0, sock.IsEvent("file-event"), 2, 500*time.Millisecond)
		t.Logf("delegate=%s: exited=%v code=%d file-events=%v", delegate, exited, code, evs)
		if exited {
			t.Logf("delegate=%s: LIBRARY CRASH on bare connect+close; stderr tail:\n%s", delegate, firstLines(tail, 12))
			if delegate == "false" {
				t.Errorf("server without the default handler must survive")
			}
		} else if len(evs) != 2 || sock.Str(evs[1], "stageName") != "success-quit" {
			t.Errorf("delegate=%s: want two success-quit file-events (probe, client), got %v", delegate, evs)
		}
		s.Stop()
	}
}

func firstLines(s string, n int) string {
	l := strings.Split(s, "\n")
	if len(l) > n {
		l = l[:n]
	}
	return strings.Join(l, "\n")
}

// TestSelfAttachUpload uploads one 300-byte file in three stream chunks (su-biao framing) and shows
// the file-event stream; with delegation the library default handler must have written the file
// under <cwd>/<phone>/<name>. Content problems are library findings: logged, not failed.
func TestSelfAttachUpload(t *testing.T) {
	dir := t.TempDir()
	s, err := sock.StartServer(sysdBin(t), "-mode", "attach", "-cwd", dir)
	if err != nil {
		t.Fatal(err)
	}
	defer s.Stop()
	c, err := sock.Dial(s.Addr())
	if err != nil {
		t.Fatal(err)
	}
	defer c.Close()

	const phone, name = "1001", "alarm_a.bin"
	file := make([]byte, 300)
	for i := range file {
		file[i] = byte(i*7 + 1)
		if file[i] == 0x7e || file[i] == 0x30 { // keep the payload free of delimiters / stream magic
			file[i] = 0x11
		}
	}
	term := terminal.New(terminal.WithHeader(consts.JT808Protocol2013, phone))
	t1211 := model.T0x1211{FileNameLen: byte(len(name)), FileName: name, FileType: 4, FileSize: uint32(len(file))}
	t1210 := model.T0x1210{TerminalID: "1234cd.", AlarmID: "alarm", AttachCount: 1,
		P9208AlarmSign:       model.P9208AlarmSign{TerminalID: "1234cd.", Time: "2024-11-22 10:00:00", SerialNumber: 1, AttachNumber: 1, ActiveSafetyType: consts.ActiveSafetyJS},
		T0x1210AlarmItemList: []model.T0x1210AlarmItem{{FileNameLen: byte(len(name)), FileName: name, FileSize: uint32(len(file))}}}
	t1212 := model.T0x1212{T0x1211: t1211}
	jt := func(cmd consts.JT808CommandType, body []byte, wantReply string) {
		t.Helper()
		if err := c.Send(term.CreateCommandData(cmd, body)); err != nil {
			t.Fatal(err)
		}
		f := c.ReadFrames(1, 2*time.Second)
		if len(f) != 1 || !strings.HasPrefix(hex.EncodeToString(f[0]), wantReply) {
			t.Errorf("%s: want reply %s.., got %x", cmd, wantReply, f)
		}
	}
	jt(t1210.Protocol(), t1210.Encode(), "7e8001")
	jt(t1211.Protocol(), t1211.Encode(), "7e8001")
	for off := 0; off < len(file); off += 100 {
		pkt := append([]byte{0x30, 0x31, 0x63, 0x64}, utils.String2FillingBytes(name, 50)...)
		pkt = binary.BigEndian.AppendUint32(pkt, uint32(off))
		pkt = binary.BigEndian.AppendUint32(pkt, 100)
		_ = c.Send(append(pkt, file[off:off+100]...))
	}
	jt(t1212.Protocol(), t1212.Encode(), "7e9212")
	_ = c.Close()

	isMine := func(e sock.Event) bool { return e["event"] == "file-event" && sock.Int(e, "conn") == 2 }
	last, ok := s.WaitFor(func(e sock.Event) bool { return isMine(e) && sock.Int(e, "stage") >= 7 }, 2*time.Second)
	var stages []string
	for _, e := range s.Collect(0, isMine, 0, 0) {
		stages = append(stages, sock.Str(e, "stageName"))
	}
	t.Logf("stages: %v", stages)
	if !ok {
		_, code, tail := s.ExitInfo()
		t.Fatalf("no quit file-event (exit %d)\n%s", code, firstLines(tail, 12))
	}
	t.Logf("last: %v", last)
	want := "init start stream-data stream-data stream-data-complete complete success-quit"
	if got := strings.Join(stages, " "); got != want {
		t.Logf("NOTE stage sequence %q differs from the expected %q", got, want)
	}
	time.Sleep(100 * time.Millisecond) // the default handler writes after our log line
	got, err := os.ReadFile(filepath.Join(dir, phone, name))
	switch {
	case err != nil:
		t.Errorf("delegation did not write the file: %v", err)
	case !bytes.Equal(got, file):
		t.Logf("NOTE LIBRARY: stored file differs from what was uploaded (len %d vs %d)", len(got), len(file))
	default:
		t.Logf("stored file is byte-identical (%d bytes)", len(got))
	}
	if !s.Alive() {
		_, code, tail := s.ExitInfo()
		t.Logf("NOTE LIBRARY: server exited with %d\n%s", code, firstLines(tail, 12))
	}
}
