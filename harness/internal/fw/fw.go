// Package fw is the small framework shared by all correspondence checks:
// one PRNG, one case format (an operation line), recover-wrapped execution of
// the implementation, coverage histogram and output files.
package fw

import (
	"bufio"
	"encoding/hex"
	"encoding/json"
	"fmt"
	"os"
	"runtime/debug"
	"sort"
	"strings"
	"sync/atomic"
	"time"
)

// Rng is splitmix64; every random choice of a run derives from VERIF_SEED.
type Rng struct{ s uint64 }

func NewRng(seed uint64) *Rng { return &Rng{s: seed*0x9E3779B97F4A7C15 + 0x1234567} }
func (r *Rng) U64() uint64 {
	r.s += 0x9E3779B97F4A7C15
	z := r.s
	z = (z ^ (z >> 30)) * 0xBF58476D1CE4E5B9
	z = (z ^ (z >> 27)) * 0x94D049BB133111EB
	return z ^ (z >> 31)
}
func (r *Rng) Intn(n int) int {
	if n <= 0 {
		return 0
	}
	return int(r.U64() % uint64(n))
}
func (r *Rng) Bool() bool        { return r.U64()&1 == 1 }
func (r *Rng) Chance(p int) bool { return r.Intn(100) < p }
func (r *Rng) Pick(xs []int) int { return xs[r.Intn(len(xs))] }
func (r *Rng) Pick2(a, b string) string {
	if r.Bool() {
		return a
	}
	return b
}
func (r *Rng) Bytes(n int) []byte {
	b := make([]byte, n)
	for i := range b {
		b[i] = byte(r.U64())
	}
	return b
}

// BytesFrom draws n bytes, each from alphabet with probability pct%, else uniform.
func (r *Rng) BytesFrom(n int, alphabet []byte, pct int) []byte {
	b := make([]byte, n)
	for i := range b {
		if r.Chance(pct) {
			b[i] = alphabet[r.Intn(len(alphabet))]
		} else {
			b[i] = byte(r.U64())
		}
	}
	return b
}
func (r *Rng) Fork() *Rng { return NewRng(r.U64()) }

// Hex renders bytes for an op line; the empty string is "-".
func Hex(b []byte) string {
	if len(b) == 0 {
		return "-"
	}
	return hex.EncodeToString(b)
}
func UnHex(s string) []byte {
	if s == "-" {
		return nil
	}
	b, err := hex.DecodeString(s)
	if err != nil {
		panic("bad hex in op line: " + s)
	}
	return b
}

// Exact returns a copy of b whose capacity equals its length.
func Exact(b []byte) []byte {
	c := make([]byte, len(b))
	copy(c, b)
	return c[:len(b):len(b)]
}

// Spare returns a copy of b with `extra` bytes of spare capacity filled with `poison`.
func Spare(b []byte, extra int, poison byte) []byte {
	c := make([]byte, len(b)+extra)
	copy(c, b)
	for i := len(b); i < len(c); i++ {
		c[i] = poison
	}
	return c[:len(b)]
}

type Case struct {
	Op   string
	Args []string
}

func (c Case) Line(idx int) string {
	return fmt.Sprintf("%d %s %s", idx, c.Op, strings.Join(c.Args, " "))
}

// OracleFailure is a failure of the property itself observed on the implementation.
type OracleFailure struct {
	Sig string // stable signature used by known_findings matchers
	Msg string
}

type Prop struct {
	ID string
	// Gen emits the cases of this run.
	Gen func(r *Rng, tier string, emit func(Case))
	// Exec runs the implementation on one case and returns the canonical result line.
	Exec func(c Case) string
	// Oracle evaluates the property directly on the implementation (nil result = holds).
	Oracle func(c Case) *OracleFailure
	// Class names the branch a case exercised (coverage histogram; "" = trivial).
	Class func(c Case, res string) string
	// CaseTimeout bounds one Exec/Oracle call (0 = 120 s). A call that does not return is reported as "hang"
	// (non-termination is a failure of every property here) and ends the run: the goroutine cannot be killed.
	CaseTimeout time.Duration
}

// withWatchdog runs f in its own goroutine; ok=false when it did not return in time.
func withWatchdog[T any](d time.Duration, f func() T) (out T, ok bool) {
	ch := make(chan T, 1)
	go func() { ch <- f() }()
	t := time.NewTimer(d)
	defer t.Stop()
	select {
	case out = <-ch:
		return out, true
	case <-t.C:
		return out, false
	}
}

// SafeExec runs f and maps a panic to "panic".
func SafeExec(f func() string) (out string) {
	defer func() {
		if e := recover(); e != nil {
			out = "panic"
			if os.Getenv("VERIF_PANIC_TRACE") != "" {
				fmt.Fprintf(os.Stderr, "panic: %v\n%s\n", e, debug.Stack())
			}
		}
	}()
	return f()
}

func SafeOracle(f func() *OracleFailure) (out *OracleFailure) {
	defer func() {
		if e := recover(); e != nil {
			out = &OracleFailure{Sig: "oracle-panic", Msg: fmt.Sprintf("panic in oracle path: %v", e)}
		}
	}()
	return f()
}

type Stats struct {
	Property   string         `json:"property"`
	Seed       uint64         `json:"seed"`
	Tier       string         `json:"tier"`
	Cases      int            `json:"cases"`
	Distinct   int            `json:"distinct_nontrivial"`
	Classes    map[string]int `json:"classes"`
	Ops        map[string]int `json:"ops"`
	OracleFail int            `json:"oracle_failures"`
	Corpus     int            `json:"corpus_cases"` // cases read from /verif/corpus/<id>.txt (run before the generated ones)
	Samples    []string       `json:"samples"`
	Extra      map[string]any `json:"extra,omitempty"`
}

// Run generates (or reads) the cases of p, executes the implementation and writes
// <dir>/ops.txt, <dir>/impl.txt, <dir>/oracle.txt, <dir>/stats.json.
// HungCases is incremented by a harness whenever a watchdog fires on the code under test. A hung call cannot be
// killed (it keeps a core busy), so after a few of them the run stops early: what has been seen is reported.
var HungCases int32

func Run(p *Prop, seed uint64, tier, dir, replayOps string) error {
	st0Corpus := 0
	if err := os.MkdirAll(dir, 0o755); err != nil {
		return err
	}
	var cases []Case
	if replayOps != "" {
		f, err := os.Open(replayOps)
		if err != nil {
			return err
		}
		sc := bufio.NewScanner(f)
		sc.Buffer(make([]byte, 1<<20), 1<<28)
		for sc.Scan() {
			t := strings.Fields(sc.Text())
			if len(t) < 2 {
				continue
			}
			cases = append(cases, Case{Op: t[1], Args: t[2:]})
		}
		f.Close()
	} else {
		// corpus first: minimised inputs of past failures of this machinery (false alarms corrected, violations found)
		cdir := os.Getenv("VERIF_CORPUS")
		if cdir == "" {
			cdir = "/verif/corpus"
		}
		if f, err := os.Open(cdir + "/" + p.ID + ".txt"); err == nil {
			sc := bufio.NewScanner(f)
			sc.Buffer(make([]byte, 1<<20), 1<<28)
			for sc.Scan() {
				t := strings.Fields(sc.Text())
				if len(t) < 1 || strings.HasPrefix(t[0], "#") {
					continue
				}
				cases = append(cases, Case{Op: t[0], Args: t[1:]})
				st0Corpus++
			}
			f.Close()
		}
		p.Gen(NewRng(seed), tier, func(c Case) { cases = append(cases, c) })
	}
	ops, err := os.Create(dir + "/ops.txt")
	if err != nil {
		return err
	}
	impl, _ := os.Create(dir + "/impl.txt")
	orc, _ := os.Create(dir + "/oracle.txt")
	wo, wi, wr := bufio.NewWriterSize(ops, 1<<20), bufio.NewWriterSize(impl, 1<<20), bufio.NewWriter(orc)
	st := &Stats{Property: p.ID, Seed: seed, Tier: tier, Classes: map[string]int{}, Ops: map[string]int{}, Corpus: st0Corpus}
	seen := map[string]bool{}
	for i, c := range cases {
		line := c.Line(i)
		fmt.Fprintln(wo, line)
		wo.Flush() // a crash of the whole process (panic in a library goroutine) leaves the culprit as last line
		limit := p.CaseTimeout
		if limit == 0 {
			limit = 120 * time.Second
		}
		res, returned := withWatchdog(limit, func() string { return SafeExec(func() string { return p.Exec(c) }) })
		if !returned {
			res = "hang"
			atomic.AddInt32(&HungCases, 100)
		}
		fmt.Fprintf(wi, "%d %s\n", i, res)
		st.Ops[c.Op]++
		cl := ""
		if p.Class != nil {
			cl = p.Class(c, res)
		} else {
			cl = c.Op + ":" + strings.SplitN(res, " ", 2)[0]
		}
		if cl != "" {
			st.Classes[cl]++
			key := c.Op + " " + strings.Join(c.Args, " ")
			if !seen[key] {
				seen[key] = true
				st.Distinct++
			}
		}
		if !returned {
			st.OracleFail++
			fmt.Fprintf(wr, "%d %s/hang the call did not return within %s (non-termination)\n", i, c.Op, limit)
		} else if p.Oracle != nil {
			f, back := withWatchdog(limit, func() *OracleFailure { return SafeOracle(func() *OracleFailure { return p.Oracle(c) }) })
			if !back {
				f = &OracleFailure{Sig: c.Op + "/hang", Msg: fmt.Sprintf("the oracle path did not return within %s (non-termination of the code under test)", limit)}
				atomic.AddInt32(&HungCases, 100)
			}
			if f != nil {
				st.OracleFail++
				fmt.Fprintf(wr, "%d %s %s\n", i, f.Sig, f.Msg)
			}
		}
		if len(st.Samples) < 4 && (i%(len(cases)/4+1) == 0) {
			s := line
			if len(s) > 400 {
				s = s[:400] + "…"
			}
			st.Samples = append(st.Samples, s+" => "+trunc(res, 200))
		}
		if atomic.LoadInt32(&HungCases) >= 4 {
			cases = cases[:i+1]
			break
		}
	}
	st.Cases = len(cases)
	wo.Flush()
	wi.Flush()
	wr.Flush()
	ops.Close()
	impl.Close()
	orc.Close()
	js, _ := json.MarshalIndent(st, "", " ")
	return os.WriteFile(dir+"/stats.json", js, 0o644)
}

func trunc(s string, n int) string {
	if len(s) > n {
		return s[:n] + "…"
	}
	return s
}

func SortedKeys(m map[string]int) []string {
	ks := make([]string, 0, len(m))
	for k := range m {
		ks = append(ks, k)
	}
	sort.Strings(ks)
	return ks
}
