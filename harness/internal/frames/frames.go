// Package frames builds JT/T 808 frames from the standard's layout, independently of
// the library's own encoder (so generated inputs do not inherit its bugs).
package frames

import "verif/harness/internal/fw"

type H struct {
	ID      uint16
	V2019   bool
	Frag    bool
	Encrypt bool
	Bits11  uint16 // bits 11,12,15 of the attribute word as given (reserved / extra encryption bits)
	Phone   []byte // 6 or 10 BCD bytes
	Serial  uint16
	Sum, No uint16
}

func Xor(b []byte) byte {
	var c byte
	for _, v := range b {
		c ^= v
	}
	return c
}

func Escape(d []byte) []byte {
	out := []byte{0x7e}
	for _, b := range d {
		switch b {
		case 0x7e:
			out = append(out, 0x7d, 0x02)
		case 0x7d:
			out = append(out, 0x7d, 0x01)
		default:
			out = append(out, b)
		}
	}
	return append(out, 0x7e)
}

// Plain returns header+body+checksum before escaping. lenOverride<0 means the true length.
func Plain(h H, body []byte, lenOverride int) []byte {
	l := len(body)
	if lenOverride >= 0 {
		l = lenOverride
	}
	attr := uint16(l&0x3ff) | h.Bits11
	if h.V2019 {
		attr |= 1 << 14
	}
	if h.Frag {
		attr |= 1 << 13
	}
	if h.Encrypt {
		attr |= 1 << 10
	}
	d := []byte{byte(h.ID >> 8), byte(h.ID), byte(attr >> 8), byte(attr)}
	if h.V2019 {
		d = append(d, 0x01)
	}
	d = append(d, h.Phone...)
	d = append(d, byte(h.Serial>>8), byte(h.Serial))
	if h.Frag {
		d = append(d, byte(h.Sum>>8), byte(h.Sum), byte(h.No>>8), byte(h.No))
	}
	d = append(d, body...)
	return append(d, Xor(d))
}

func Build(h H, body []byte) []byte { return Escape(Plain(h, body, -1)) }

var Special = []byte{0x7e, 0x7d, 0x01, 0x02}

func RandPhone(r *fw.Rng, v2019 bool) []byte {
	n := 6
	if v2019 {
		n = 10
	}
	p := make([]byte, n)
	switch r.Intn(6) {
	case 0: // all zero
	case 1: // hex nibbles
		for i := range p {
			p[i] = byte(r.U64())
		}
	case 2: // leading zeros then digits
		for i := n / 2; i < n; i++ {
			p[i] = byte(r.Intn(10)<<4 | r.Intn(10))
		}
	case 3: // contains 7d/7e
		for i := range p {
			p[i] = Special[r.Intn(4)]
		}
	default:
		for i := range p {
			p[i] = byte(r.Intn(10)<<4 | r.Intn(10))
		}
	}
	return p
}

var u16s = []int{0, 1, 0x7d, 0x7e, 0x7d7e, 0x7e7d, 0xffff, 0x0100, 0x0200, 0x8001}

func RandU16(r *fw.Rng) uint16 {
	if r.Chance(50) {
		return uint16(r.Pick(u16s))
	}
	return uint16(r.U64())
}

var IDs = []int{0x0001, 0x0002, 0x0100, 0x0102, 0x0104, 0x0200, 0x0704, 0x0800, 0x0801, 0x0805,
	0x1003, 0x1005, 0x1205, 0x1206, 0x1210, 0x1211, 0x1212, 0x8001, 0x8100, 0x8103, 0x9101}

func RandH(r *fw.Rng) H {
	h := H{V2019: r.Bool(), Frag: r.Chance(35), Encrypt: r.Chance(30), Serial: RandU16(r)}
	if r.Chance(70) {
		h.ID = uint16(r.Pick(IDs))
	} else {
		h.ID = RandU16(r)
		if h.ID == 0x8003 {
			// the parser-level harnesses recognise the server's own re-requests by this ID (they are appended to the
			// parse result); a random inbound frame with the same ID was once taken for one (false alarm in a
			// thorough run, 1 frame in 65536)
			h.ID = 0x8004
		}
	}
	if r.Chance(15) {
		h.Bits11 = uint16(r.Pick([]int{0x0800, 0x1000, 0x1800, 0x8000, 0x9800}))
	}
	h.Phone = RandPhone(r, h.V2019)
	if h.Frag {
		h.Sum, h.No = RandU16(r), RandU16(r)
		if r.Chance(60) {
			h.Sum = uint16(1 + r.Intn(8))
			h.No = uint16(1 + r.Intn(int(h.Sum)))
		}
	}
	return h
}

var bodyLens = []int{0, 1, 2, 5, 20, 999, 1000, 1001, 1022, 1023}

// RandBody draws a body of 0..max bytes, dense in the special bytes with probability.
func RandBody(r *fw.Rng, max int) []byte {
	var n int
	switch r.Intn(4) {
	case 0:
		n = r.Pick(bodyLens)
	case 1:
		n = r.Intn(40)
	default:
		n = r.Intn(max + 1)
	}
	if n > max {
		n = max
	}
	switch r.Intn(4) {
	case 0:
		return r.BytesFrom(n, Special, 90)
	case 1:
		return r.BytesFrom(n, Special, 30)
	case 2:
		b := r.Bytes(n)
		if n > 0 {
			b[0] = Special[r.Intn(4)]
			b[n-1] = Special[r.Intn(4)]
		}
		return b
	}
	return r.Bytes(n)
}

// Unescape reverses Escape for a delimited frame (strict: only 7d01 / 7d02 pairs).
func Unescape(f []byte) ([]byte, bool) {
	if len(f) < 3 || f[0] != 0x7e || f[len(f)-1] != 0x7e {
		return nil, false
	}
	var out []byte
	in := f[1 : len(f)-1]
	for i := 0; i < len(in); i++ {
		if in[i] == 0x7d {
			if i+1 >= len(in) {
				return nil, false
			}
			switch in[i+1] {
			case 0x01:
				out = append(out, 0x7d)
			case 0x02:
				out = append(out, 0x7e)
			default:
				return nil, false
			}
			i++
		} else {
			out = append(out, in[i])
		}
	}
	return out, true
}

// Parse reads a frame built by Build back into (H, body) following the standard's layout.
func Parse(f []byte) (H, []byte, bool) {
	var h H
	p, ok := Unescape(f)
	if !ok || len(p) < 13 || Xor(p) != 0 {
		return h, nil, false
	}
	h.ID = uint16(p[0])<<8 | uint16(p[1])
	attr := uint16(p[2])<<8 | uint16(p[3])
	h.V2019 = attr&(1<<14) != 0
	h.Frag = attr&(1<<13) != 0
	h.Encrypt = attr&(1<<10) != 0
	h.Bits11 = attr & 0x9800
	i, n := 4, 6
	if h.V2019 {
		i, n = 5, 10
	}
	need := i + n + 2
	if h.Frag {
		need += 4
	}
	if len(p) < need+1 {
		return h, nil, false
	}
	h.Phone = append([]byte{}, p[i:i+n]...)
	i += n
	h.Serial = uint16(p[i])<<8 | uint16(p[i+1])
	i += 2
	if h.Frag {
		h.Sum = uint16(p[i])<<8 | uint16(p[i+1])
		h.No = uint16(p[i+2])<<8 | uint16(p[i+3])
		i += 4
	}
	if len(p)-1-i != int(attr&0x3ff) {
		return h, nil, false
	}
	return h, append([]byte{}, p[i:len(p)-1]...), true
}

// SplitStream cuts a concatenation of frames (no interior 7e) into its frames; ok=false if it is not one.
func SplitStream(s []byte) ([][]byte, bool) {
	var out [][]byte
	for len(s) > 0 {
		if s[0] != 0x7e || len(s) < 3 {
			return nil, false
		}
		j := -1
		for k := 1; k < len(s); k++ {
			if s[k] == 0x7e {
				j = k
				break
			}
		}
		if j < 2 {
			return nil, false
		}
		out = append(out, s[:j+1])
		s = s[j+1:]
	}
	return out, true
}
