// Package frames builds JT/T 808 frames from the standard's layout, independently of
// the library's own encoder (so generated inputs do not inherit its bugs).
package frames

import "verif/harness/internal/fw"

type H struct {
	ID      uint16
	V2019   bool
	Frag    bool
	Encrypt bool
	Bits11  uint16 // bits 11,12,15 of the attribute word as given (reserved / extra encryption bits)
	Phone   []byte // 6 or 10 BCD bytes
	Serial  uint16
	Sum, No uint16
}

func Xor(b []byte) byte {
	var c byte
	for _, v := range b {
		c ^= v
	}
	return c
}

func Escape(d []byte) []byte {
	out := []byte{0x7e}
	for _, b := range d {
		switch b {
		case 0x7e:
			out = append(out, 0x7d, 0x02)
		case 0x7d:
			out = append(out, 0x7d, 0x01)
		default:
			out = append(out, b)
		}
	}
	return append(out, 0x7e)
}

// Plain returns header+body+checksum before escaping. lenOverride<0 means the true length.
func Plain(h H, body []byte, lenOverride int) []byte {
	l := len(body)
	if lenOverride >= 0 {
		l = lenOverride
	}
	attr := uint16(l&0x3ff) | h.Bits11
	if h.V2019 {
		attr |= 1 << 14
	}
	if h.Frag {
		attr |= 1 << 13
	}
	if h.Encrypt {
		attr |= 1 << 10
	}
	d := []byte{byte(h.ID >> 8), byte(h.ID), byte(attr >> 8), byte(attr)}
	if h.V2019 {
		d = append(d, 0x01)
	}
	d = append(d, h.Phone...)
	d = append(d, byte(h.Serial>>8), byte(h.Serial))
	if h.Frag {
		d = append(d, byte(h.Sum>>8), byte(h.Sum), byte(h.No>>8), byte(h.No))
	}
	d = append(d, body...)
	return append(d, Xor(d))
}

func Build(h H, body []byte) []byte { return Escape(Plain(h, body, -1)) }

var Special = []byte{0x7e, 0x7d, 0x01, 0x02}

func RandPhone(r *fw.Rng, v2019 bool) []byte {
	n := 6
	if v2019 {
		n = 10
	}
	p := make([]byte, n)
	switch r.Intn(6) {
	case 0: // all zero
	case 1: // hex nibbles
		for i := range p {
			p[i] = byte(r.U64())
		}
	case 2: // leading zeros then digits
		for i := n / 2; i < n; i++ {
			p[i] = byte(r.Intn(10)<<4 | r.Intn(10))
		}
	case 3: // contains 7d/7e
		for i := range p {
			p[i] = Special[r.Intn(4)]
		}
	default:
		for i := range p {
			p[i] = byte(r.Intn(10)<<4 | r.Intn(10))
		}
	}
	return p
}

var u16s = []int{0, 1, 0x7d, 0x7e, 0x7d7e, 0x7e7d, 0xffff, 0x0100, 0x0200, 0x8001}

func RandU16(r *fw.Rng) uint16 {
	if r.Chance(50) {
		return uint16(r.Pick(u16s))
	}
	return uint16(r.U64())
}

var IDs = []int{0x0001, 0x0002, 0x0100, 0x0102, 0x0104, 0x0200, 0x0704, 0x0800, 0x0801, 0x0805,
	0x1003, 0x1005, 0x1205, 0x1206, 0x1210, 0x1211, 0x1212, 0x8001, 0x8100, 0x8103, 0x9101}

func RandH(r *fw.Rng) H {
	h := H{V2019: r.Bool(), Frag: r.Chance(35), Encrypt: r.Chance(30), Serial: RandU16(r)}
	if r.Chance(70) {
		h.ID = uint16(r.Pick(IDs))
	} else {
		h.ID = RandU16(r)
	}
	if r.Chance(15) {
		h.Bits11 = uint16(r.Pick([]int{0x0800, 0x1000, 0x1800, 0x8000, 0x9800}))
	}
	h.Phone = RandPhone(r, h.V2019)
	if h.Frag {
		h.Sum, h.No = RandU16(r), RandU16(r)
		if r.Chance(60) {
			h.Sum = uint16(1 + r.Intn(8))
			h.No = uint16(1 + r.Intn(int(h.Sum)))
		}
	}
	return h
}

var bodyLens = []int{0, 1, 2, 5, 20, 999, 1000, 1001, 1022, 1023}

// RandBody draws a body of 0..max bytes, dense in the special bytes with probability.
func RandBody(r *fw.Rng, max int) []byte {
	var n int
	switch r.Intn(4) {
	case 0:
		n = r.Pick(bodyLens)
	case 1:
		n = r.Intn(40)
	default:
		n = r.Intn(max + 1)
	}
	if n > max {
		n = max
	}
	switch r.Intn(4) {
	case 0:
		return r.BytesFrom(n, Special, 90)
	case 1:
		return r.BytesFrom(n, Special, 30)
	case 2:
		b := r.Bytes(n)
		if n > 0 {
			b[0] = Special[r.Intn(4)]
			b[n-1] = Special[r.Intn(4)]
		}
		return b
	}
	return r.Bytes(n)
}
