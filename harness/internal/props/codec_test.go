package props

import (
	"bufio"
	"bytes"
	"encoding/json"
	"fmt"
	"os"
	"reflect"
	"sort"
	"strconv"
	"strings"
	"testing"
	"time"

	"github.com/cuteLittleDevil/go-jt808/protocol/model"
	"github.com/cuteLittleDevil/go-jt808/protocol/utils"
	"verif/harness/internal/fw"
)

func codecTempDir(t *testing.T) string {
	t.Helper()
	base := "/var/tmp"
	if _, err := os.Stat(base); err != nil {
		base = os.TempDir()
	}
	dir, err := os.MkdirTemp(base, "codec-verif-")
	if err != nil {
		t.Fatal(err)
	}
	t.Cleanup(func() { os.RemoveAll(dir) })
	return dir
}

type codecRunSummary struct {
	stats  fw.Stats
	sigs   map[string]int
	first  map[string]string // sig -> first oracle line
	impl   map[string]int    // first token of impl results
	wall   time.Duration
	badOps int
}

func codecRunProp(t *testing.T, p *fw.Prop, seed uint64, tier string) codecRunSummary {
	t.Helper()
	dir := codecTempDir(t)
	start := time.Now()
	if err := fw.Run(p, seed, tier, dir, ""); err != nil {
		t.Fatalf("%s: %v", p.ID, err)
	}
	out := codecRunSummary{sigs: map[string]int{}, first: map[string]string{}, impl: map[string]int{}, wall: time.Since(start)}
	js, err := os.ReadFile(dir + "/stats.json")
	if err != nil {
		t.Fatal(err)
	}
	if err := json.Unmarshal(js, &out.stats); err != nil {
		t.Fatal(err)
	}
	scan := func(name string, f func(line string)) {
		fh, err := os.Open(dir + "/" + name)
		if err != nil {
			t.Fatal(err)
		}
		defer fh.Close()
		sc := bufio.NewScanner(fh)
		sc.Buffer(make([]byte, 1<<20), 1<<28)
		for sc.Scan() {
			f(sc.Text())
		}
	}
	scan("oracle.txt", func(l string) {
		f := strings.SplitN(l, " ", 3)
		if len(f) < 2 {
			return
		}
		out.sigs[f[1]]++
		if _, ok := out.first[f[1]]; !ok {
			out.first[f[1]] = l
		}
	})
	scan("impl.txt", func(l string) {
		f := strings.Fields(l)
		if len(f) < 2 {
			out.badOps++
			return
		}
		out.impl[f[1]]++
		if f[1] == "bad-op" {
			out.badOps++
		}
	})
	return out
}

func codecReport(t *testing.T, id string, s codecRunSummary) {
	t.Helper()
	t.Logf("%s: %d cases, %d oracle failures, %d classes, wall %v, impl results %v", id, s.stats.Cases, s.stats.OracleFail, len(s.stats.Classes), s.wall.Round(time.Millisecond), s.impl)
	keys := make([]string, 0, len(s.sigs))
	for k := range s.sigs {
		keys = append(keys, k)
	}
	sort.Strings(keys)
	for _, k := range keys {
		t.Logf("  %6d  %s", s.sigs[k], k)
	}
}

// TestCodecSmoke runs both properties once (seed 1, quick) and prints the
// per-signature counts. Genuine library defects do not fail it; harness errors do.
func TestCodecSmoke(t *testing.T) {
	for _, p := range []*fw.Prop{C03, C07} {
		s := codecRunProp(t, p, 1, "quick")
		codecReport(t, p.ID, s)
		if s.stats.Cases == 0 {
			t.Errorf("%s: no cases generated", p.ID)
		}
		if s.stats.Cases > 60000 {
			t.Errorf("%s: %d cases exceed the quick budget of 60000", p.ID, s.stats.Cases)
		}
		if s.badOps > 0 {
			t.Errorf("%s: %d bad-op results (unknown type/context or malformed op line)", p.ID, s.badOps)
		}
		for sig := range s.sigs {
			if strings.HasPrefix(sig, "codec/") || strings.HasPrefix(sig, "oracle-panic") {
				t.Errorf("%s: harness error signature %s: %s", p.ID, sig, s.first[sig])
			}
		}
		for res := range s.impl {
			switch res {
			case "ok", "err", "panic":
			default:
				t.Errorf("%s: unexpected Exec result class %q", p.ID, res)
			}
		}
		if s.wall > 45*time.Second {
			t.Logf("WARNING %s: quick tier took %v (budget ~40 s on one core)", p.ID, s.wall)
		}
	}
}

// TestCodecSeeds prints the signatures for seeds 1..5 (VERIF_CODEC_SEEDS=1).
func TestCodecSeeds(t *testing.T) {
	if os.Getenv("VERIF_CODEC_SEEDS") == "" {
		t.Skip("set VERIF_CODEC_SEEDS=1")
	}
	for _, p := range []*fw.Prop{C03, C07} {
		total := map[string]int{}
		for seed := uint64(1); seed <= 5; seed++ {
			s := codecRunProp(t, p, seed, "quick")
			t.Logf("%s seed %d: %d cases, %d failures, %d signatures, wall %v", p.ID, seed, s.stats.Cases, s.stats.OracleFail, len(s.sigs), s.wall.Round(time.Millisecond))
			for k, v := range s.sigs {
				total[k] += v
			}
		}
		keys := make([]string, 0, len(total))
		for k := range total {
			keys = append(keys, k)
		}
		sort.Strings(keys)
		for _, k := range keys {
			t.Logf("  %7d  %s", total[k], k)
		}
	}
}

// TestCodecDeterministic: the same seed gives the same cases, byte for byte.
func TestCodecDeterministic(t *testing.T) {
	for _, p := range []*fw.Prop{C03, C07} {
		var a, b bytes.Buffer
		p.Gen(fw.NewRng(7), "quick", func(c fw.Case) { fmt.Fprintln(&a, c.Line(0)) })
		p.Gen(fw.NewRng(7), "quick", func(c fw.Case) { fmt.Fprintln(&b, c.Line(0)) })
		if !bytes.Equal(a.Bytes(), b.Bytes()) {
			t.Errorf("%s: generator is not deterministic", p.ID)
		}
		var c2 bytes.Buffer
		p.Gen(fw.NewRng(8), "quick", func(c fw.Case) { fmt.Fprintln(&c2, c.Line(0)) })
		if bytes.Equal(a.Bytes(), c2.Bytes()) {
			t.Errorf("%s: generator ignores the seed", p.ID)
		}
		for _, l := range strings.Split(a.String(), "\n") {
			if f := strings.Fields(l); len(f) > 0 && len(f) != 6 {
				t.Fatalf("%s: op line does not have 4 arguments: %q", p.ID, trunc(l, 200))
			}
		}
	}
}

// TestCodecRegistry: every exported message type of protocol/model that has a
// Parse method is in the registry, with the right Encode/String flags.
func TestCodecRegistry(t *testing.T) {
	want := []string{"T0x0001", "T0x0002", "T0x0100", "T0x0102", "T0x0104", "T0x0200", "T0x0704", "T0x0800", "T0x0801", "T0x0805",
		"T0x1003", "T0x1005", "T0x1205", "T0x1206", "T0x1210", "T0x1211", "T0x1212",
		"P0x8001", "P0x8003", "P0x8100", "P0x8103", "P0x8104", "P0x8800", "P0x8801", "P0x9003", "P0x9101", "P0x9102", "P0x9105",
		"P0x9201", "P0x9202", "P0x9205", "P0x9206", "P0x9207", "P0x9208", "P0x9212"}
	for _, n := range want {
		e := codecByName[n]
		if e == nil {
			t.Errorf("no registry entry for %s", n)
			continue
		}
		if !e.hasEncode || !e.hasString {
			t.Errorf("%s: hasEncode=%v hasString=%v", n, e.hasEncode, e.hasString)
		}
		if e.twoWay && e.gen == nil {
			t.Errorf("%s: two-way type without a value generator", n)
		}
		for _, cs := range e.ctxs {
			c, ok := codecParseCtx(cs)
			if !ok {
				t.Errorf("%s: bad ctx %s", n, cs)
			}
			if e.gen != nil {
				v := e.gen(fw.NewRng(1), c, -1)
				if reflect.TypeOf(v) != reflect.TypeOf(e.mk(c).(*codecBodyRecv).v) {
					t.Errorf("%s: generator returns %T", n, v)
				}
			}
		}
	}
	if len(codecRegistry) != len(want)+5+5+2 {
		t.Errorf("registry has %d entries", len(codecRegistry))
	}
	// the parameter table: every ParamContent field of the struct is seen, ids are the ones in the names
	if n := len(codecParamFields); n < 80 {
		t.Errorf("only %d parameter fields found", n)
	}
	for _, p := range codecParamFields {
		if !p.exported {
			t.Logf("note: parameter field %s cannot be set by reflection; it is covered by harness-built bodies only", p.name)
		}
	}
}

// TestCodecHelpers: the comparison helper agrees with reflect.DeepEqual on the
// documented cases, the generator's alphabet is in domain.
func TestCodecHelpers(t *testing.T) {
	for _, ch := range codecHan {
		s := string(ch)
		g := utils.UTF82GBK([]byte(s))
		if len(g) != 2 || string(utils.GBK2UTF8(g)) != s {
			t.Errorf("character %q does not round-trip through GBK (%x)", s, g)
		}
	}
	r := fw.NewRng(3)
	for i := 0; i < 200; i++ {
		s := codecGBKText(r, 0, 24)
		g := utils.UTF82GBK([]byte(s))
		if len(g) > 24 || string(utils.GBK2UTF8(g)) != s {
			t.Fatalf("text %q is outside the GBK domain", s)
		}
	}
	a := &model.P0x8003{AgainPackageList: []uint16{1, 2}}
	b := &model.P0x8003{AgainPackageList: []uint16{1, 3}}
	if d := codecDiff(a, b, nil); !strings.HasPrefix(d, "AgainPackageList[1]") {
		t.Errorf("diff path = %q", d)
	}
	if d := codecDiff(&model.P0x8003{}, &model.P0x8003{AgainPackageList: []uint16{}}, nil); d != "" {
		t.Errorf("nil vs empty slice reported: %q", d)
	}
	// unexported fields are compared
	type inner struct{ hidden int }
	if d := codecDiff(&inner{1}, &inner{2}, nil); d == "" {
		t.Errorf("unexported field difference not seen")
	}
	// agreement with DeepEqual on generated values (no funcs, no nil/empty ambiguity)
	for _, e := range codecRegistry {
		if e.gen == nil {
			continue
		}
		c, _ := codecParseCtx(e.ctxs[0])
		for i := uint64(0); i < 20; i++ {
			x, y, z := e.gen(fw.NewRng(i), c, -1), e.gen(fw.NewRng(i), c, -1), e.gen(fw.NewRng(i+1000), c, -1)
			if (codecDiff(x, y, nil) == "") != reflect.DeepEqual(x, y) {
				t.Errorf("%s: diff and DeepEqual disagree on equal values", e.name)
			}
			if (codecDiff(x, z, nil) == "") != reflect.DeepEqual(x, z) {
				t.Errorf("%s: diff and DeepEqual disagree: %q", e.name, codecDiff(x, z, nil))
			}
		}
	}
	if got := codecShortFunc("github.com/cuteLittleDevil/go-jt808/protocol/model.(*T0x0704).Parse"); got != "T0x0704.Parse" {
		t.Errorf("short func = %q", got)
	}
	if got := codecShortFunc("github.com/cuteLittleDevil/go-jt808/protocol/utils.BCD2Time"); got != "utils.BCD2Time" {
		t.Errorf("short func = %q", got)
	}
	if got := codecShortFunc("github.com/cuteLittleDevil/go-jt808/protocol/model.ParamContent[go.shape.uint8].encode"); got != "ParamContent.encode" {
		t.Errorf("short func = %q", got)
	}
}

// TestCodecMinimize (VERIF_CODEC_MIN=1) shrinks one witness per signature:
// shortest failing case first, then greedy removal/zeroing of bytes and of
// history bodies while the signature stays the same.
func TestCodecMinimize(t *testing.T) {
	if os.Getenv("VERIF_CODEC_MIN") == "" {
		t.Skip("set VERIF_CODEC_MIN=1")
	}
	seeds := 2
	if s := os.Getenv("VERIF_CODEC_MIN_SEEDS"); s != "" {
		seeds, _ = strconv.Atoi(s)
	}
	for _, p := range []*fw.Prop{C03, C07} {
		best := map[string]fw.Case{}
		for seed := uint64(1); seed <= uint64(seeds); seed++ {
			p.Gen(fw.NewRng(seed), "quick", func(c fw.Case) {
				f := fw.SafeOracle(func() *fw.OracleFailure { return p.Oracle(c) })
				if f == nil {
					return
				}
				if old, ok := best[f.Sig]; !ok || codecCaseSize(c) < codecCaseSize(old) {
					best[f.Sig] = c
				}
			})
		}
		sigs := make([]string, 0, len(best))
		for s := range best {
			sigs = append(sigs, s)
		}
		sort.Strings(sigs)
		for _, sig := range sigs {
			c := codecShrink(p, best[sig], sig)
			f := p.Oracle(c)
			t.Logf("%s\n    %s %s\n    exec=%s\n    %s", sig, c.Op, strings.Join(c.Args, " "), p.Exec(c), f.Msg)
		}
	}
}

func codecCaseSize(c fw.Case) int {
	n := len(c.Args[2])
	if c.Op == "tot" && c.Args[3] != "-" {
		n += 1000 + len(c.Args[3])
	}
	return n
}

func codecShrink(p *fw.Prop, c fw.Case, sig string) fw.Case {
	still := func(x fw.Case) bool {
		f := fw.SafeOracle(func() *fw.OracleFailure { return p.Oracle(x) })
		return f != nil && f.Sig == sig
	}
	with := func(body []byte, hist string) fw.Case {
		a := append([]string{}, c.Args...)
		a[2] = fw.Hex(body)
		if hist != "" {
			a[3] = hist
		}
		return fw.Case{Op: c.Op, Args: a}
	}
	if c.Op == "rt" {
		// a round-trip case must stay in the wire domain (it is the encoding of a value):
		// no bytewise shrinking, the shortest failing case of the run is the witness
		return c
	}
	// history first
	if c.Op == "tot" && c.Args[3] != "-" {
		hs := strings.Split(c.Args[3], ",")
		for i := 0; i < len(hs); {
			rest := append(append([]string{}, hs[:i]...), hs[i+1:]...)
			spec := "-"
			if len(rest) > 0 {
				spec = strings.Join(rest, ",")
			}
			if x := with(fw.UnHex(c.Args[2]), spec); still(x) {
				hs, c = rest, x
			} else {
				i++
			}
		}
	}
	body := fw.UnHex(c.Args[2])
	for changed := true; changed; {
		changed = false
		// cut the tail, then single bytes
		for n := len(body) - 1; n >= 0; n-- {
			if x := with(body[:n], ""); still(x) {
				body, c, changed = body[:n], x, true
			} else {
				break
			}
		}
		for i := len(body) - 1; i >= 0 && len(body) <= 400; i-- {
			m := append(append([]byte{}, body[:i]...), body[i+1:]...)
			if x := with(m, ""); still(x) {
				body, c, changed = m, x, true
			}
		}
	}
	for i := range body {
		if body[i] == 0 {
			continue
		}
		m := append([]byte{}, body...)
		m[i] = 0
		if x := with(m, ""); still(x) {
			body, c = m, x
		}
	}
	return c
}

// TestCodecThorough (VERIF_CODEC_THOROUGH=1) runs the thorough tier once and reports size and time.
func TestCodecThorough(t *testing.T) {
	if os.Getenv("VERIF_CODEC_THOROUGH") == "" {
		t.Skip("set VERIF_CODEC_THOROUGH=1")
	}
	for _, p := range []*fw.Prop{C07, C03} {
		s := codecRunProp(t, p, 1, "thorough")
		codecReport(t, p.ID, s)
		if s.badOps > 0 {
			t.Errorf("%s: %d bad-op results", p.ID, s.badOps)
		}
	}
}

// TestCodecFindingsWitnesses replays every witness line of codec_FINDINGS.md
// ("<op line> => <signature>") and logs whether it still fires with that
// signature. It never fails because of the library (fixes make witnesses go
// quiet); it fails only when a witness line is malformed.
func TestCodecFindingsWitnesses(t *testing.T) {
	path := "codec_FINDINGS.md"
	if p := os.Getenv("VERIF_CODEC_WITNESS_FILE"); p != "" {
		path = p
	}
	data, err := os.ReadFile(path)
	if err != nil {
		t.Skip("no findings file: " + err.Error())
	}
	open, quiet, other := 0, 0, 0
	for _, line := range strings.Split(string(data), "\n") {
		line = strings.TrimSpace(line)
		i := strings.Index(line, " => ")
		if i < 0 || !(strings.HasPrefix(line, "tot ") || strings.HasPrefix(line, "rt ")) {
			continue
		}
		f := strings.Fields(line[:i])
		want := strings.TrimSpace(line[i+4:])
		c := fw.Case{Op: f[0], Args: f[1:]}
		var p *fw.Prop
		switch {
		case c.Op == "tot" && len(c.Args) == 4:
			p = C03
		case c.Op == "rt" && len(c.Args) >= 3:
			p = C07
		default:
			t.Errorf("malformed witness line: %s", trunc(line, 200))
			continue
		}
		if res := fw.SafeExec(func() string { return p.Exec(c) }); res == "bad-op" {
			t.Errorf("witness is not a valid op line: %s", trunc(line, 200))
			continue
		}
		got := "holds"
		if fl := fw.SafeOracle(func() *fw.OracleFailure { return p.Oracle(c) }); fl != nil {
			got = fl.Sig
		}
		switch {
		case got == want:
			open++
			t.Logf("OPEN   %s", want)
		case got == "holds":
			quiet++
			t.Logf("QUIET  %s (the property now holds on the witness)", want)
		default:
			other++
			t.Logf("OTHER  %s now reports %s: %s", want, got, trunc(line, 160))
		}
	}
	t.Logf("%d witnesses still fire, %d are quiet, %d fire with another signature", open, quiet, other)
}
