package props

import (
	"verif/harness/internal/frames"
	"verif/harness/internal/fw"
)

// transfer builds the N packets of one sub-packaged message.
type transferSpec struct {
	id     uint16
	v2019  bool
	phone  []byte
	bodies [][]byte
	serial uint16
}

func (t transferSpec) packet(no int, r *fw.Rng) finfo {
	h := frames.H{ID: t.id, V2019: t.v2019, Frag: true, Phone: t.phone, Serial: t.serial + uint16(no-1),
		Sum: uint16(len(t.bodies)), No: uint16(no)}
	return mkFrame(h, t.bodies[no-1])
}

func randTransfer(r *fw.Rng, id uint16, maxN int) transferSpec {
	t := transferSpec{id: id, v2019: r.Bool(), serial: frames.RandU16(r)}
	t.phone = frames.RandPhone(r, t.v2019)
	n := 1 + r.Intn(maxN)
	equal := r.Bool()
	l := 1 + r.Intn(40)
	for i := 0; i < n; i++ {
		bl := l
		if !equal {
			bl = 1 + r.Intn(60)
		}
		if r.Chance(5) {
			bl = 900 + r.Intn(124)
		}
		var b []byte
		if r.Chance(40) {
			b = r.BytesFrom(bl, frames.Special, 60)
		} else {
			b = r.Bytes(bl)
		}
		t.bodies = append(t.bodies, b)
	}
	return t
}

// arrival order: packet 1 first, then 2..N in random order with duplicates.
func arrival(r *fw.Rng, n int, dupPct int) []int {
	rest := make([]int, 0, n)
	for i := 2; i <= n; i++ {
		rest = append(rest, i)
	}
	for i := len(rest) - 1; i > 0; i-- {
		j := r.Intn(i + 1)
		rest[i], rest[j] = rest[j], rest[i]
	}
	out := []int{1}
	for _, x := range rest {
		out = append(out, x)
		if r.Chance(dupPct) {
			out = append(out, x)
		}
		if r.Chance(dupPct) && len(out) > 2 {
			out = append(out, out[1+r.Intn(len(out)-1)])
		}
	}
	return out
}

var transferIDs = []int{0x0801, 0x0704, 0x0200, 0x0104, 0x1205, 0x7e7d}

func genC05(r *fw.Rng, tier string, emit func(fw.Case)) {
	n, maxN := 2500, 8
	if tier == "thorough" {
		n, maxN = 40000, 40
	}
	for i := 0; i < n; i++ {
		t1 := randTransfer(r, uint16(r.Pick(transferIDs)), maxN)
		var seqs []finfo
		for _, no := range arrival(r, len(t1.bodies), 20) {
			seqs = append(seqs, t1.packet(no, r))
		}
		// interleave: a second concurrent transfer with another id, unfragmented messages, impossible numbers
		var extra []finfo
		if r.Chance(40) {
			id2 := t1.id ^ 0x0100
			t2 := randTransfer(r, id2, maxN)
			order := arrival(r, len(t2.bodies), 10)
			if r.Chance(30) { // left incomplete
				order = order[:1+r.Intn(len(order))]
			}
			for _, no := range order {
				extra = append(extra, t2.packet(no, r))
			}
		}
		for k := r.Intn(4); k > 0; k-- {
			extra = append(extra, mkFrame(unfragH(r), frames.RandBody(r, 30)))
		}
		if r.Chance(35) {
			for k := 1 + r.Intn(2); k > 0; k-- {
				bad := t1.packet(1, r)
				bad.h.No = uint16(r.Pick([]int{0, len(t1.bodies) + 1, len(t1.bodies) + 2, 0xffff}))
				bad.h.Serial = frames.RandU16(r)
				extra = append(extra, mkFrame(bad.h, r.Bytes(1+r.Intn(20))))
			}
		}
		if r.Chance(30) { // packets of the same id that announce ANOTHER total (not first packets): not part of the transfer
			for k := 1 + r.Intn(3); k > 0; k-- {
				other := len(t1.bodies) + r.Pick([]int{-2, -1, 1, 2, 7})
				if other < 2 {
					other = len(t1.bodies) + 1
				}
				no := 2 + r.Intn(other-1)
				h := t1.packet(1, r).h
				h.Sum, h.No, h.Serial = uint16(other), uint16(no), frames.RandU16(r)
				extra = append(extra, mkFrame(h, r.Bytes(1+r.Intn(20))))
			}
		}
		if r.Chance(15) { // packets of an id for which no packet 1 was ever seen
			h := frames.H{ID: 0x0999, Frag: true, Phone: frames.RandPhone(r, false), Sum: 3, No: uint16(2 + r.Intn(2)), Serial: 9}
			extra = append(extra, mkFrame(h, r.Bytes(5)))
		}
		// merge keeping the relative order of each list; impossible-number packets must not precede packet 1
		// of their own transfer only in the sense that they are ignored either way
		var all []finfo
		a, b := seqs, extra
		all = append(all, a[0])
		a = a[1:]
		for len(a)+len(b) > 0 {
			if len(b) == 0 || (len(a) > 0 && r.Chance(60)) {
				all = append(all, a[0])
				a = a[1:]
			} else {
				all = append(all, b[0])
				b = b[1:]
			}
		}
		var stream []byte
		for _, f := range all {
			stream = append(stream, f.bytes...)
		}
		switch r.Intn(4) {
		case 0, 1: // each packet in its own read (bigger frames are split by the 1023-byte buffer)
			var cs []pchunk
			for _, f := range all {
				s := f.bytes
				for len(s) > 0 {
					k := 1023
					if k > len(s) {
						k = len(s)
					}
					cs = append(cs, pchunk{0, s[:k]})
					s = s[k:]
				}
			}
			emitSess(emit, cs)
		case 2: // coalesced
			emitSess(emit, cutRandom(r, stream, 1023))
		default: // split small
			emitSess(emit, cutRandom(r, stream, 40))
		}
	}
	// restarted transfers: message ID X is abandoned after some of its packets (or a duplicate arrives after it
	// completed) and X starts again with the same total, new serials and new content; the packets of the second transfer
	// arrive in any order. Packet 1 begins a new transfer: nothing received before it may count for, or appear in, the
	// message delivered for the second transfer.
	for i := 0; i < n/8; i++ {
		N := 2 + r.Intn(6)
		old := randTransfer(r, uint16(r.Pick(transferIDs)), 1)
		old.bodies = nil
		for k := 0; k < N; k++ {
			old.bodies = append(old.bodies, r.Bytes(1+r.Intn(6)))
		}
		nw := old
		nw.serial = old.serial + 100 + uint16(r.Intn(1000))
		nw.bodies = nil
		for k := 0; k < N; k++ {
			nw.bodies = append(nw.bodies, r.Bytes(1+r.Intn(6)))
		}
		var cs []pchunk
		cs = append(cs, pchunk{0, old.packet(1, r).bytes})
		complete := r.Chance(30)
		for k := 2; k <= N; k++ {
			if complete || r.Chance(60) {
				cs = append(cs, pchunk{0, old.packet(k, r).bytes})
			}
		}
		if complete { // a late duplicate of the finished transfer
			cs = append(cs, pchunk{0, old.packet(2+r.Intn(N-1), r).bytes})
		}
		cs = append(cs, pchunk{0, nw.packet(1, r).bytes})
		for _, no := range arrival(r, N, 15)[1:] {
			cs = append(cs, pchunk{0, nw.packet(no, r).bytes})
		}
		cs = append(cs, pchunk{0, mkFrame(unfragH(r), nil).bytes})
		emitSess(emit, cs)
	}
	// all arrival orders for small N (exhaustive for N <= 4 in quick, <= 5 in thorough)
	maxP := 4
	if tier == "thorough" {
		maxP = 5
	}
	for N := 1; N <= maxP; N++ {
		t := randTransfer(r, 0x0801, 1)
		t.bodies = nil
		for i := 0; i < N; i++ {
			t.bodies = append(t.bodies, r.Bytes(3+i))
		}
		rest := []int{}
		for i := 2; i <= N; i++ {
			rest = append(rest, i)
		}
		permute(rest, func(p []int) {
			var cs []pchunk
			cs = append(cs, pchunk{0, t.packet(1, r).bytes})
			for _, no := range p {
				cs = append(cs, pchunk{0, t.packet(no, r).bytes})
			}
			emitSess(emit, cs)
		})
	}
}

func permute(a []int, f func([]int)) {
	var rec func(int)
	rec = func(k int) {
		if k == len(a) {
			f(append([]int{}, a...))
			return
		}
		for i := k; i < len(a); i++ {
			a[k], a[i] = a[i], a[k]
			rec(k + 1)
			a[k], a[i] = a[i], a[k]
		}
	}
	rec(0)
}

var C05 = &fw.Prop{ID: "C05", Gen: genC05, Oracle: oracleParse, Exec: execParse, Class: classParse}
