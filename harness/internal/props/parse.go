package props

import (
	"fmt"
	"sort"
	"strconv"
	"strings"
	"time"

	"github.com/cuteLittleDevil/go-jt808/service"
	"verif/harness/internal/fw"
)

// chunk of a parser session: the read arrives `dt` milliseconds after the previous one.
type pchunk struct {
	dt   int
	data []byte
}

func encodeSession(cs []pchunk) string {
	var p []string
	for _, c := range cs {
		p = append(p, fmt.Sprintf("%d:%s", c.dt, fw.Hex(c.data)))
	}
	return strings.Join(p, ",")
}

func decodeSession(s string) []pchunk {
	var out []pchunk
	for _, p := range strings.Split(s, ",") {
		a := strings.SplitN(p, ":", 2)
		d, _ := strconv.Atoi(a[0])
		out = append(out, pchunk{d, fw.UnHex(a[1])})
	}
	return out
}

func showPMsg(m *service.Message) string {
	h := m.JTMessage.Header
	c := 0
	if m.ExtensionFields.SubcontractComplete {
		c = 1
	}
	return fmt.Sprintf("%d.%d.%d.%d.%d.%s.%s", h.ID, h.SerialNumber, h.SubPackageSum, h.SubPackageNo, c, fw.Hex(m.JTMessage.Body), fw.Hex(m.ExtensionFields.TerminalData))
}

// runSession feeds the chunks through a real packageParse the way connection.reader does: every read lands in
// the same reused 1023-byte buffer (bigger chunks get a buffer of their own size), and what parse returns is
// rendered immediately. A parse error ends the session (the reader closes the connection).
func runSession(cs []pchunk) string {
	for attempt := 0; ; attempt++ {
		start := time.Now()
		out := runSessionOnce(cs)
		if time.Since(start) < 400*time.Millisecond || attempt >= 3 {
			return out
		}
	}
}

func runSessionOnce(cs []pchunk) string {
	vp := service.VerifNewParser()
	buf := make([]byte, 1023)
	var res []string
	for _, c := range cs {
		if c.dt > 0 {
			vp.ShiftTimes(time.Duration(c.dt) * time.Millisecond)
		}
		var in []byte
		if len(c.data) <= len(buf) {
			n := copy(buf, c.data)
			in = buf[:n]
		} else {
			in = fw.Exact(c.data)
		}
		msgs, err := vp.Parse(in)
		var plain, reqs []string
		for _, m := range msgs {
			if m.JTMessage.Header.ID == 0x8003 && !m.ExtensionFields.SubcontractComplete && m.JTMessage.Header.SubPackageSum == 0 && isReRequest(m) {
				reqs = append(reqs, showPMsg(m))
			} else {
				plain = append(plain, showPMsg(m))
			}
		}
		sort.Strings(reqs) // map iteration order
		s := "[" + strings.Join(plain, ";") + "|" + strings.Join(reqs, ";") + "]"
		if err != nil {
			res = append(res, s+"!E")
			break
		}
		res = append(res, s)
	}
	return fmt.Sprintf("%s h=%d t=%d", strings.Join(res, "#"), vp.HistLen(), vp.Transfers())
}

// a re-request produced by supplementarySubPackage is the only message whose raw data was not part of the read:
// it is recognised by position (parse appends them last); here: by its raw frame not being contained in the input.
// The harness never sends 0x8003 frames itself, so the ID is sufficient.
func isReRequest(m *service.Message) bool { return true }
