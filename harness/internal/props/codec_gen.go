package props

// In-domain value generators (C07) and structurally valid wire generators (C03)
// for every registry entry. All randomness comes from the *fw.Rng handed in.
//
// Wire domain, as read from each Encode/Parse pair:
//   - fixed-width strings are NUL padded by Encode and NUL trimmed by Parse:
//     generated without any NUL and not longer than the field;
//   - variable strings are raw bytes with a length byte that must equal len(string);
//   - time fields are "20YY-MM-DD hh:mm:ss" rendered from 6 BCD bytes: decimal digits only;
//   - count fields equal the list lengths;
//   - GBK text: printable ASCII plus a few Chinese characters that round-trip through GBK.

import (
	"encoding/binary"
	"fmt"
	"reflect"
	"strconv"

	"github.com/cuteLittleDevil/go-jt808/protocol/model"
	"github.com/cuteLittleDevil/go-jt808/protocol/utils"
	"github.com/cuteLittleDevil/go-jt808/shared/consts"
	"verif/harness/internal/fw"
)

const codecAlnum = "ABCDEFGHIJKLMNOPQRSTUVWXYZabcdefghijklmnopqrstuvwxyz0123456789"

// codecHan are characters of GB2312 (hence GBK); TestCodecHelpers checks that each round-trips.
var codecHan = []rune("京沪粤苏浙鲁川渝测试车牌警")

// codecRawStr: 0..max bytes, none of them NUL (mostly alphanumeric, sometimes any non-NUL byte).
func codecRawStr(r *fw.Rng, max int) string {
	return codecRawStrN(r, r.Intn(max+1))
}

func codecRawStrN(r *fw.Rng, n int) string {
	b := make([]byte, n)
	wild := r.Chance(20)
	for i := range b {
		if wild && r.Chance(30) {
			b[i] = byte(1 + r.Intn(255))
		} else {
			b[i] = codecAlnum[r.Intn(len(codecAlnum))]
		}
	}
	// blanks at either end and inside: a parser that trims more than the NUL padding loses them
	if n > 0 && r.Chance(12) {
		b[0] = ' '
	}
	if n > 1 && r.Chance(12) {
		b[n-1] = ' '
	}
	if n > 2 && r.Chance(6) {
		b[1+r.Intn(n-2)] = []byte{' ', '\t', '.', '-', '_'}[r.Intn(5)]
	}
	return string(b)
}

// codecGBKText: text whose GBK encoding has at most maxBytes bytes (and at least minBytes).
func codecGBKText(r *fw.Rng, minBytes, maxBytes int) string {
	target := minBytes
	if maxBytes > minBytes {
		target += r.Intn(maxBytes - minBytes + 1)
	}
	var out []rune
	n := 0
	for n < target {
		if target-n >= 2 && r.Chance(30) {
			out = append(out, codecHan[r.Intn(len(codecHan))])
			n += 2
		} else {
			out = append(out, rune(0x20+r.Intn(0x5f)))
			n++
		}
	}
	return string(out)
}

// codecTime: "20YY-MM-DD hh:mm:ss"; every two-digit group is any pair of decimal digits.
func codecTime(r *fw.Rng) string {
	if r.Chance(70) {
		return fmt.Sprintf("20%02d-%02d-%02d %02d:%02d:%02d", r.Intn(100), 1+r.Intn(12), 1+r.Intn(28), r.Intn(24), r.Intn(60), r.Intn(60))
	}
	return fmt.Sprintf("20%02d-%02d-%02d %02d:%02d:%02d", r.Intn(100), r.Intn(100), r.Intn(100), r.Intn(100), r.Intn(100), r.Intn(100))
}

func codecU16(r *fw.Rng) uint16 {
	if r.Chance(15) {
		return uint16(r.Pick([]int{0, 1, 0xff, 0x100, 0x7e7d, 0xffff}))
	}
	return uint16(r.U64())
}
func codecU32(r *fw.Rng) uint32 {
	if r.Chance(15) {
		return uint32(r.Pick([]int{0, 1, 0xff, 0x7e7d7e7d, 0xffffffff}))
	}
	return uint32(r.U64())
}
func codecU8(r *fw.Rng) byte { return byte(r.U64()) }

// codecListLen draws a list length in 0..max, favouring the ends.
func codecListLen(r *fw.Rng, max int, variant int) int {
	if variant >= 0 {
		if variant > max {
			return max
		}
		return variant
	}
	switch r.Intn(10) {
	case 0:
		return 0
	case 1:
		return 1
	case 2:
		return max
	case 3:
		return r.Intn(max + 1)
	}
	if max > 6 {
		return r.Intn(7)
	}
	return r.Intn(max + 1)
}

func codecLoc(r *fw.Rng) model.T0x0200LocationItem {
	return model.T0x0200LocationItem{AlarmSign: codecU32(r), StatusSign: codecU32(r), Latitude: codecU32(r), Longitude: codecU32(r),
		Altitude: codecU16(r), Speed: codecU16(r), Direction: codecU16(r), DateTime: codecTime(r)}
}

// codecSignValue fills a P9208AlarmSign for the dialect of c. Lengths (from
// p_0x9208.go): terminal id 7/30/30/7/30, whole block 16/38/40/32/39, so the
// reserve is 1/0/2/17/1 bytes for JS/HLJ/GD/HN/SC.
func codecSignValue(r *fw.Rng, c codecCtx) model.P9208AlarmSign {
	idLen, total := 7, 16
	switch c.dia {
	case consts.ActiveSafetyHLJ:
		idLen, total = 30, 38
	case consts.ActiveSafetyGD:
		idLen, total = 30, 40
	case consts.ActiveSafetyHN:
		idLen, total = 7, 32
	case consts.ActiveSafetySC:
		idLen, total = 30, 39
	}
	s := model.P9208AlarmSign{ActiveSafetyType: c.dia, TerminalID: codecRawStr(r, idLen), Time: codecTime(r),
		SerialNumber: codecU8(r), AttachNumber: codecU8(r)}
	if n := total - idLen - 8; n > 0 {
		s.AlarmReserve = r.Bytes(n)
	}
	return s
}

// ---------------------------------------------------------------------------
// terminal parameters

type codecParamField struct {
	index    int
	name     string
	id       uint32
	kind     reflect.Kind // Uint8, Uint16, Uint32, String, Array
	arrayLen int
	exported bool
}

// codecParamFields lists the ParamContent fields of TerminalParamDetails in
// declaration order (= the order Encode writes them); the id is the hex number
// in the field name (T0x01AICCardAddress -> 0x01A).
var codecParamFields = func() []codecParamField {
	var out []codecParamField
	t := reflect.TypeOf(model.TerminalParamDetails{})
	for i := 0; i < t.NumField(); i++ {
		f := t.Field(i)
		if f.Type.Kind() != reflect.Struct || f.Type.NumField() != 3 || len(f.Name) < 6 || f.Name[:3] != "T0x" {
			continue
		}
		id, err := strconv.ParseUint(f.Name[3:6], 16, 32)
		if err != nil {
			continue
		}
		vt := f.Type.Field(2).Type
		pf := codecParamField{index: i, name: f.Name, id: uint32(id), kind: vt.Kind(), exported: f.PkgPath == ""}
		if vt.Kind() == reflect.Array {
			pf.arrayLen = vt.Len()
		}
		out = append(out, pf)
	}
	return out
}()

func (p codecParamField) naturalLen() int {
	switch p.kind {
	case reflect.Uint8:
		return 1
	case reflect.Uint16:
		return 2
	case reflect.Uint32:
		return 4
	case reflect.Array:
		return p.arrayLen
	}
	return 5
}

// codecParamExtraIDs: ids that parseParam accepts in its switch but that have no field.
var codecParamExtraIDs = []uint32{0x02a, 0x02b}

// codecUnknownParamIDs: ids outside every table (stored in OtherContent).
var codecUnknownParamIDs = []uint32{0x0008, 0x0033, 0x0111, 0xF000, 0xF364, 0xFFFF}

func codecSetParam(d *model.TerminalParamDetails, pf codecParamField, r *fw.Rng) {
	fv := reflect.ValueOf(d).Elem().Field(pf.index)
	fv.Field(0).SetUint(uint64(pf.id))
	switch pf.kind {
	case reflect.Uint8:
		fv.Field(1).SetUint(1)
		fv.Field(2).SetUint(uint64(codecU8(r)))
	case reflect.Uint16:
		fv.Field(1).SetUint(2)
		fv.Field(2).SetUint(uint64(codecU16(r)))
	case reflect.Uint32:
		fv.Field(1).SetUint(4)
		fv.Field(2).SetUint(uint64(codecU32(r)))
	case reflect.Array:
		fv.Field(1).SetUint(uint64(pf.arrayLen))
		b := r.Bytes(pf.arrayLen)
		for i := 0; i < pf.arrayLen; i++ {
			fv.Field(2).Index(i).SetUint(uint64(b[i]))
		}
	case reflect.String:
		s := codecGBKText(r, 1, 24)
		fv.Field(1).SetUint(uint64(len(utils.UTF82GBK([]byte(s)))))
		fv.Field(2).SetString(s)
	}
}

// codecParamDetails builds an in-domain parameter list. variant v >= 0 forces a
// shape: with n settable fields, v < n is the single field number v, n <= v < 2n
// is field number v-n together with one or two other fields.
func codecParamDetails(r *fw.Rng, variant int) (model.TerminalParamDetails, int) {
	var d model.TerminalParamDetails
	settable := codecSettableParams()
	n := 0
	picked := map[int]bool{}
	pick := func(j int) {
		if !picked[j] {
			picked[j] = true
			codecSetParam(&d, settable[j], r)
			n++
		}
	}
	if variant >= 0 {
		pick(variant % len(settable))
		if variant >= len(settable) {
			for i := 1 + r.Intn(2); i > 0; i-- {
				pick(r.Intn(len(settable)))
			}
		}
		return d, n
	}
	k := r.Pick([]int{0, 1, 1, 2, 3, 5, 8})
	for i := 0; i < k; i++ {
		pick(r.Intn(len(settable)))
	}
	if r.Chance(25) {
		m := 1 + r.Intn(2)
		for i := 0; i < m; i++ {
			id := codecUnknownParamIDs[r.Intn(len(codecUnknownParamIDs))]
			if d.OtherContent == nil {
				d.OtherContent = map[uint32]model.ParamContent[[]byte]{}
			}
			if _, dup := d.OtherContent[id]; dup {
				continue
			}
			v := r.Bytes(1 + r.Intn(6))
			d.OtherContent[id] = model.ParamContent[[]byte]{ID: id, Len: byte(len(v)), Value: v}
			n++
		}
	}
	return d, n
}

func codecSettableParams() []codecParamField {
	var out []codecParamField
	for _, p := range codecParamFields {
		if p.exported {
			out = append(out, p)
		}
	}
	return out
}

// codecParamTLV is the harness-side encoder of one parameter item.
func codecParamTLV(id uint32, val []byte) []byte {
	b := binary.BigEndian.AppendUint32(nil, id)
	b = append(b, byte(len(val)))
	return append(b, val...)
}

// ---------------------------------------------------------------------------
// per type value generators

func codecSeq(n int) []int {
	out := make([]int, n)
	for i := range out {
		out[i] = i
	}
	return out
}

func codecAttachGenerators(es []*codecEntry) {
	by := map[string]*codecEntry{}
	for _, e := range es {
		by[e.name] = e
	}
	set := func(name string, gen func(r *fw.Rng, c codecCtx, variant int) codecMsg) *codecEntry {
		e := by[name]
		if e == nil {
			panic("codec: generator for unknown entry " + name)
		}
		e.gen = gen
		return e
	}
	lens := func(quick, thorough []int) func(string) []int {
		return func(tier string) []int {
			if tier == "thorough" {
				return thorough
			}
			return quick
		}
	}

	set("T0x0001", func(r *fw.Rng, _ codecCtx, _ int) codecMsg {
		return &model.T0x0001{SerialNumber: codecU16(r), ID: codecU16(r), Result: codecU8(r)}
	})
	set("T0x0002", func(*fw.Rng, codecCtx, int) codecMsg { return &model.T0x0002{} })
	set("P0x8104", func(*fw.Rng, codecCtx, int) codecMsg { return &model.P0x8104{} })
	set("P0x9003", func(*fw.Rng, codecCtx, int) codecMsg { return &model.P0x9003{} })

	// 0x0100: three layouts (manufacturer/model/terminal id widths 5/8/7, 5/20/7, 11/30/30).
	// The header version selects 2019; 2011 and 2013 share a header and are told apart by
	// the body length (<= 36 means 2011), so a 2011 plate has at most 11 GBK bytes.
	set("T0x0100", func(r *fw.Rng, c codecCtx, _ int) codecMsg {
		t := &model.T0x0100{ProvinceID: codecU16(r), CityID: codecU16(r), PlateColor: codecU8(r), Version: c.ver}
		switch c.ver {
		case consts.JT808Protocol2019:
			t.ManufacturerID, t.TerminalModel, t.TerminalID = codecRawStr(r, 11), codecRawStr(r, 30), codecRawStr(r, 30)
			t.LicensePlateNumber = codecGBKText(r, 0, 20)
		case consts.JT808Protocol2013:
			t.ManufacturerID, t.TerminalModel, t.TerminalID = codecRawStr(r, 5), codecRawStr(r, 20), codecRawStr(r, 7)
			t.LicensePlateNumber = codecGBKText(r, 0, 20)
		default:
			t.ManufacturerID, t.TerminalModel, t.TerminalID = codecRawStr(r, 5), codecRawStr(r, 8), codecRawStr(r, 7)
			t.LicensePlateNumber = codecGBKText(r, 0, 11)
		}
		return t
	})

	// 0x0102: 2013 = the whole body is the code; 2019 = len, code, IMEI[15], software version[20].
	set("T0x0102", func(r *fw.Rng, c codecCtx, variant int) codecMsg {
		if c.ver != consts.JT808Protocol2019 {
			return &model.T0x0102{AuthCode: codecRawStr(r, 40), Version: consts.JT808Protocol2013}
		}
		n := r.Intn(24)
		if variant >= 0 {
			n = variant
		} else if r.Chance(10) {
			n = 200 + r.Intn(56)
		}
		return &model.T0x0102{AuthCodeLen: uint8(n), AuthCode: codecRawStrN(r, n), TerminalIMEI: codecRawStrN(r, 15),
			SoftwareVersion: codecRawStr(r, 20), Version: consts.JT808Protocol2019}
	}).variants = lens([]int{0, 1, 239, 240, 255}, codecSeq(256))

	set("T0x0200", func(r *fw.Rng, _ codecCtx, _ int) codecMsg { return &model.T0x0200{T0x0200LocationItem: codecLoc(r)} })

	// 0x0704: Encode writes only the 28-byte base of each item, so an in-domain item has Len 28 and no additions.
	set("T0x0704", func(r *fw.Rng, _ codecCtx, variant int) codecMsg {
		n := codecListLen(r, 12, variant)
		t := &model.T0x0704{Num: uint16(n), LocationType: codecU8(r)}
		for i := 0; i < n; i++ {
			t.Items = append(t.Items, model.T0x0704LocationItem{Len: 28, T0x0200LocationItem: codecLoc(r)})
		}
		return t
	}).variants = lens([]int{0, 1, 2, 12}, codecSeq(13))

	set("T0x0800", func(r *fw.Rng, _ codecCtx, _ int) codecMsg {
		return &model.T0x0800{MultimediaID: codecU32(r), MultimediaType: codecU8(r), MultimediaFormatEncode: codecU8(r), EventItemEncode: codecU8(r), ChannelID: codecU8(r)}
	})
	set("T0x0801", func(r *fw.Rng, _ codecCtx, variant int) codecMsg {
		n := codecListLen(r, 64, variant)
		return &model.T0x0801{MultimediaID: codecU32(r), MultimediaType: codecU8(r), MultimediaFormatEncode: codecU8(r), EventItemEncode: codecU8(r),
			ChannelID: codecU8(r), T0x0200LocationItem: codecLoc(r), MultimediaPackage: r.Bytes(n)}
	}).variants = lens([]int{0, 1}, []int{0, 1, 2, 64})
	set("T0x0805", func(r *fw.Rng, _ codecCtx, variant int) codecMsg {
		n := codecListLen(r, 40, variant)
		t := &model.T0x0805{RespondSerialNumber: codecU16(r), Result: codecU8(r), MultimediaIDNumber: uint16(n)}
		for i := 0; i < n; i++ {
			t.MultimediaIDList = append(t.MultimediaIDList, codecU32(r))
		}
		return t
	}).variants = lens([]int{0, 1, 2, 40}, codecSeq(41))
	set("T0x1003", func(r *fw.Rng, _ codecCtx, _ int) codecMsg {
		return &model.T0x1003{EnterAudioEncoding: codecU8(r), EnterAudioChannelsNumber: codecU8(r), EnterAudioSampleRate: codecU8(r),
			EnterAudioSampleDigits: codecU8(r), AudioFrameLength: codecU16(r), HasSupportedAudioOutput: codecU8(r), VideoEncoding: codecU8(r),
			TerminalSupportedMaxNumberOfAudioPhysicalChannels: codecU8(r), TerminalSupportedMaxNumberOfVideoPhysicalChannels: codecU8(r)}
	})
	set("T0x1005", func(r *fw.Rng, _ codecCtx, _ int) codecMsg {
		return &model.T0x1005{StartTime: codecTime(r), EndTime: codecTime(r), BoardNumber: codecU16(r), AlightNumber: codecU16(r)}
	})
	set("T0x1205", func(r *fw.Rng, _ codecCtx, variant int) codecMsg {
		n := codecListLen(r, 30, variant)
		t := &model.T0x1205{SerialNumber: codecU16(r), AudioVideoResourceTotal: uint32(n)}
		for i := 0; i < n; i++ {
			t.AudioVideoResourceList = append(t.AudioVideoResourceList, model.T0x1205AudioVideoResource{ChannelNo: codecU8(r), StartTime: codecTime(r),
				EndTime: codecTime(r), AlarmFlag: r.U64(), AudioVideoResourceType: codecU8(r), StreamType: codecU8(r), MemoryType: codecU8(r), FileSizeByte: codecU32(r)})
		}
		return t
	}).variants = lens([]int{0, 1, 2, 30}, codecSeq(31))
	set("T0x1206", func(r *fw.Rng, _ codecCtx, _ int) codecMsg {
		return &model.T0x1206{RespondSerialNumber: codecU16(r), Result: codecU8(r)}
	})

	// 0x1210: [terminal id (absent for HLJ)] alarm sign, alarm id[32], type, count, items(len,name,size).
	set("T0x1210", func(r *fw.Rng, c codecCtx, variant int) codecMsg {
		t := &model.T0x1210{P9208AlarmSign: codecSignValue(r, c), AlarmID: codecRawStr(r, 32), InfoType: codecU8(r)}
		switch c.dia {
		case consts.ActiveSafetyHLJ:
		case consts.ActiveSafetyGD, consts.ActiveSafetySC:
			t.TerminalID = codecRawStr(r, 30)
		default:
			t.TerminalID = codecRawStr(r, 7)
		}
		n := codecListLen(r, 20, variant)
		t.AttachCount = byte(n)
		for i := 0; i < n; i++ {
			name := codecRawStr(r, 30)
			switch {
			case r.Chance(5):
				name = codecRawStrN(r, 255)
			case r.Chance(10):
				name = ""
			}
			t.T0x1210AlarmItemList = append(t.T0x1210AlarmItemList, model.T0x1210AlarmItem{FileNameLen: byte(len(name)), FileName: name, FileSize: codecU32(r)})
		}
		return t
	}).variants = lens([]int{0, 1, 2, 20}, codecSeq(21))

	file := func(r *fw.Rng, variant int) model.T0x1211 {
		n := r.Intn(40)
		if variant >= 0 {
			n = variant
		}
		return model.T0x1211{FileNameLen: byte(n), FileName: codecRawStrN(r, n), FileType: codecU8(r), FileSize: codecU32(r)}
	}
	set("T0x1211", func(r *fw.Rng, _ codecCtx, variant int) codecMsg { t := file(r, variant); return &t }).variants = lens([]int{0, 1, 255}, codecSeq(256))
	set("T0x1212", func(r *fw.Rng, _ codecCtx, variant int) codecMsg { return &model.T0x1212{T0x1211: file(r, variant)} }).variants = lens([]int{0, 1, 255}, []int{0, 1, 2, 254, 255})

	set("P0x8001", func(r *fw.Rng, _ codecCtx, _ int) codecMsg {
		return &model.P0x8001{RespondSerialNumber: codecU16(r), RespondID: codecU16(r), Result: codecU8(r)}
	})
	set("P0x8003", func(r *fw.Rng, _ codecCtx, variant int) codecMsg {
		n := codecListLen(r, 255, variant)
		p := &model.P0x8003{OriginalSerialNumber: codecU16(r), AgainPackageCount: byte(n)}
		for i := 0; i < n; i++ {
			p.AgainPackageList = append(p.AgainPackageList, codecU16(r))
		}
		return p
	}).variants = lens([]int{0, 1, 2, 255}, codecSeq(256))
	set("P0x8100", func(r *fw.Rng, _ codecCtx, _ int) codecMsg {
		return &model.P0x8100{RespondSerialNumber: codecU16(r), Result: codecU8(r), AuthCode: codecRawStr(r, 30)}
	})
	set("P0x8103", func(r *fw.Rng, _ codecCtx, variant int) codecMsg {
		d, n := codecParamDetails(r, variant)
		return &model.P0x8103{ParamTotal: uint8(n), TerminalParamDetails: d}
	}).variants = func(string) []int { return codecSeq(2 * len(codecSettableParams())) }
	set("P0x8800", func(r *fw.Rng, _ codecCtx, variant int) codecMsg {
		n := codecListLen(r, 255, variant)
		p := &model.P0x8800{MultimediaID: codecU32(r), AgainPackageCount: byte(n)}
		for i := 0; i < n; i++ {
			p.AgainPackageList = append(p.AgainPackageList, codecU16(r))
		}
		return p
	}).variants = lens([]int{0, 1, 2, 255}, codecSeq(256))
	set("P0x8801", func(r *fw.Rng, _ codecCtx, _ int) codecMsg {
		return &model.P0x8801{ChannelID: codecU8(r), ShootCommand: codecU16(r), PhotoIntervalOrVideoTime: codecU16(r), SaveFlag: codecU8(r), Resolution: codecU8(r),
			VideoQuality: codecU8(r), Intensity: codecU8(r), Contrast: codecU8(r), Saturation: codecU8(r), Chroma: codecU8(r)}
	})
	addrLen := func(r *fw.Rng, variant int) int {
		if variant >= 0 {
			return variant
		}
		return r.Intn(32)
	}
	set("P0x9101", func(r *fw.Rng, _ codecCtx, variant int) codecMsg {
		n := addrLen(r, variant)
		return &model.P0x9101{ServerIPLen: byte(n), ServerIPAddr: codecRawStrN(r, n), TcpPort: codecU16(r), UdpPort: codecU16(r), ChannelNo: codecU8(r),
			DataType: codecU8(r), StreamType: codecU8(r)}
	}).variants = lens([]int{0, 1, 255}, codecSeq(256))
	set("P0x9102", func(r *fw.Rng, _ codecCtx, _ int) codecMsg {
		return &model.P0x9102{ChannelNo: codecU8(r), ControlCmd: codecU8(r), CloseAudioVideoData: codecU8(r), StreamType: codecU8(r)}
	})
	set("P0x9105", func(r *fw.Rng, _ codecCtx, _ int) codecMsg {
		return &model.P0x9105{ChannelNo: codecU8(r), PackageLossRate: codecU8(r)}
	})
	set("P0x9201", func(r *fw.Rng, _ codecCtx, variant int) codecMsg {
		n := addrLen(r, variant)
		return &model.P0x9201{ServerIPLen: byte(n), ServerIPAddr: codecRawStrN(r, n), TcpPort: codecU16(r), UdpPort: codecU16(r), ChannelNo: codecU8(r),
			MediaType: codecU8(r), StreamType: codecU8(r), MemoryType: codecU8(r), PlaybackWay: codecU8(r), PlaySpeed: codecU8(r),
			StartTime: codecTime(r), EndTime: codecTime(r)}
	}).variants = lens([]int{0, 1, 255}, codecSeq(256))
	set("P0x9202", func(r *fw.Rng, _ codecCtx, _ int) codecMsg {
		return &model.P0x9202{ChannelNo: codecU8(r), PlayControl: codecU8(r), PlaySpeed: codecU8(r), DateTime: codecTime(r)}
	})
	set("P0x9205", func(r *fw.Rng, _ codecCtx, _ int) codecMsg {
		return &model.P0x9205{ChannelNo: codecU8(r), StartTime: codecTime(r), EndTime: codecTime(r), AlarmFlag: r.U64(), MediaType: codecU8(r),
			StreamType: codecU8(r), StorageType: codecU8(r)}
	})
	set("P0x9206", func(r *fw.Rng, _ codecCtx, variant int) codecMsg {
		ln := func() int {
			if variant >= 0 {
				return variant
			}
			if r.Chance(5) {
				return 255
			}
			return r.Intn(24)
		}
		a, u, pw, pa := ln(), ln(), ln(), ln()
		return &model.P0x9206{FTPAddrLen: byte(a), FTPAddr: codecRawStrN(r, a), Port: codecU16(r), UsernameLen: byte(u), Username: codecRawStrN(r, u),
			PasswordLen: byte(pw), Password: codecRawStrN(r, pw), FileUploadPathLen: byte(pa), FileUploadPath: codecRawStrN(r, pa), ChannelNo: codecU8(r),
			StartTime: codecTime(r), EndTime: codecTime(r), AlarmFlag: r.U64(), MediaType: codecU8(r), StreamType: codecU8(r), MemoryPosition: codecU8(r),
			TaskExecuteCondition: codecU8(r)}
	}).variants = lens([]int{0, 1, 255}, []int{0, 1, 2, 100, 254, 255})
	set("P0x9207", func(r *fw.Rng, _ codecCtx, _ int) codecMsg {
		return &model.P0x9207{RespondSerialNumber: codecU16(r), UploadControl: codecU8(r)}
	})
	// 0x9208: len, address, tcp, udp, alarm sign (dialect), alarm id[32], reserve (rest of the body).
	set("P0x9208", func(r *fw.Rng, c codecCtx, variant int) codecMsg {
		n := addrLen(r, variant)
		p := &model.P0x9208{ServerIPLen: byte(n), ServerAddr: codecRawStrN(r, n), TcpPort: codecU16(r), UdpPort: codecU16(r),
			P9208AlarmSign: codecSignValue(r, c), AlarmID: codecRawStr(r, 32)}
		switch r.Intn(3) {
		case 0:
			p.Reserve = r.Bytes(16)
		case 1:
			p.Reserve = r.Bytes(r.Intn(20))
		}
		return p
	}).variants = lens([]int{0, 1, 255}, []int{0, 1, 2, 100, 254, 255})
	set("P0x9212", func(r *fw.Rng, _ codecCtx, variant int) codecMsg {
		n := codecListLen(r, 255, variant)
		name := codecRawStr(r, 40)
		p := &model.P0x9212{FileNameLen: byte(len(name)), FileName: name, FileType: codecU8(r), UploadResult: codecU8(r), RetransmitPacketNumber: byte(n)}
		for i := 0; i < n; i++ {
			p.P0x9212RetransmitPacketList = append(p.P0x9212RetransmitPacketList, model.P0x9212RetransmitPacket{DataOffset: codecU32(r), DataLength: codecU32(r)})
		}
		return p
	}).variants = lens([]int{0, 1, 2, 255}, codecSeq(256))

	codecAttachWire(by)
}

// ---------------------------------------------------------------------------
// wire generators: structurally valid bodies outside the two-way domain

// codecStdAdditions are the ids with a fixed admissible length in T0x0200AdditionDetails.parse.
var codecStdAdditions = []struct {
	id byte
	n  int
}{{0x01, 4}, {0x02, 2}, {0x03, 2}, {0x04, 2}, {0x05, 30}, {0x06, 2}, {0x11, 1}, {0x11, 5}, {0x12, 6}, {0x13, 7},
	{0x25, 4}, {0x2a, 2}, {0x2b, 4}, {0x30, 1}, {0x31, 1}}

func codecLocBytes(r *fw.Rng) []byte {
	b := r.Bytes(22)
	for i := 0; i < 6; i++ {
		if r.Chance(90) {
			b = append(b, byte(r.Intn(10)<<4|r.Intn(10)))
		} else {
			b = append(b, codecU8(r))
		}
	}
	return b
}

func codecAdditionItems(r *fw.Rng, max int) []byte {
	var b []byte
	k := r.Intn(max + 1)
	for i := 0; i < k; i++ {
		if r.Chance(15) {
			id := byte(0x07 + r.Intn(0xf0))
			v := r.Bytes(r.Intn(9))
			b = append(append(b, id, byte(len(v))), v...)
			continue
		}
		a := codecStdAdditions[r.Intn(len(codecStdAdditions))]
		v := r.Bytes(a.n)
		if a.id == 0x11 && a.n == 1 && r.Chance(70) {
			v[0] = 0 // "no specific area": the only standard one-byte form
		}
		b = append(append(b, a.id, byte(a.n)), v...)
	}
	return b
}

// codecExtContent builds a content for extension id with the shape the standard
// (JS dialect tables) gives it; extra is added to the length the parser accepts.
func codecExtContent(r *fw.Rng, id uint8, extra int) []byte {
	n := codecExtNatural(id)
	if id == 0x66 {
		k := r.Intn(4)
		b := r.Bytes(40)
		b = append(b, byte(k))
		b = append(b, r.Bytes(9*k)...)
		if extra == -1 { // the length T0x0200AdditionExtension0x66.Parse accepts: 40+9k
			if len(b) > 40 {
				b = b[:len(b)-1]
			}
			return b
		}
		return b
	}
	if n+extra < 0 {
		return nil
	}
	return r.Bytes(n + extra)
}

func codecBCDPhone(r *fw.Rng, n int) []byte {
	b := make([]byte, n)
	for i := range b {
		b[i] = byte(r.Intn(10)<<4 | r.Intn(10))
	}
	return b
}

// codecFrameRaw builds header+body of a JT808 frame (no checksum, no escape).
func codecFrameRaw(r *fw.Rng) []byte {
	body := r.Bytes(r.Pick([]int{0, 1, 5, 28, 40, 100}))
	if r.Chance(30) {
		for i := range body {
			if r.Chance(20) {
				body[i] = byte(0x7d + r.Intn(2))
			}
		}
	}
	v2019, frag := r.Chance(50), r.Chance(30)
	attr := uint16(len(body))
	if frag {
		attr |= 1 << 13
	}
	if v2019 {
		attr |= 1 << 14
	}
	if r.Chance(10) {
		attr |= 1 << 10
	}
	if r.Chance(5) {
		attr |= 1 << 15
	}
	raw := binary.BigEndian.AppendUint16(nil, codecU16(r))
	raw = binary.BigEndian.AppendUint16(raw, attr)
	if v2019 {
		raw = append(raw, 0x01)
		raw = append(raw, codecBCDPhone(r, 10)...)
	} else {
		raw = append(raw, codecBCDPhone(r, 6)...)
	}
	raw = binary.BigEndian.AppendUint16(raw, codecU16(r))
	if frag {
		raw = binary.BigEndian.AppendUint16(raw, uint16(1+r.Intn(5)))
		raw = binary.BigEndian.AppendUint16(raw, uint16(r.Intn(6)))
	}
	return append(raw, body...)
}

// codecFrameWrap appends the XOR check code, escapes 7e/7d and adds the delimiters.
func codecFrameWrap(raw []byte) []byte {
	var x byte
	for _, b := range raw {
		x ^= b
	}
	out := []byte{0x7e}
	for _, b := range append(append([]byte{}, raw...), x) {
		switch b {
		case 0x7e:
			out = append(out, 0x7d, 0x02)
		case 0x7d:
			out = append(out, 0x7d, 0x01)
		default:
			out = append(out, b)
		}
	}
	return append(out, 0x7e)
}

// codecRTPBytes lays out one JT/T 1078 RTP packet (table 19), optionally followed by more data.
func codecRTPBytes(r *fw.Rng) []byte {
	dt := r.Intn(16)
	if r.Chance(70) {
		dt = r.Intn(5)
	}
	d := []byte{0x30, 0x31, 0x63, 0x64, codecU8(r), codecU8(r), codecU8(r), codecU8(r)}
	d = append(d, codecBCDPhone(r, 6)...)
	d = append(d, codecU8(r), byte(dt<<4|r.Intn(16)))
	if dt != 4 {
		d = append(d, r.Bytes(8)...)
	}
	if dt <= 2 {
		d = append(d, r.Bytes(4)...)
	}
	n := r.Pick([]int{0, 1, 7, 30})
	d = append(d, byte(n>>8), byte(n))
	d = append(d, r.Bytes(n)...)
	if r.Chance(25) {
		d = append(d, r.Bytes(r.Intn(6))...)
	}
	return d
}

func codecAttachWire(by map[string]*codecEntry) {
	by["T0x0200"].wire = func(r *fw.Rng, _ codecCtx) []byte {
		return append(codecLocBytes(r), codecAdditionItems(r, 5)...)
	}
	by["T0x0704"].wire = func(r *fw.Rng, _ codecCtx) []byte {
		n := 1 + r.Intn(3)
		b := []byte{0, byte(n), codecU8(r)}
		for i := 0; i < n; i++ {
			it := append(codecLocBytes(r), codecAdditionItems(r, 3)...)
			b = binary.BigEndian.AppendUint16(b, uint16(len(it)))
			b = append(b, it...)
		}
		return b
	}
	params := func(r *fw.Rng) []byte {
		d, n := codecParamDetails(r, -1)
		p := &model.P0x8103{ParamTotal: uint8(n), TerminalParamDetails: d}
		b := p.Encode()
		// ids no struct field carries (0x02a/0x02b) and the byte-sized ids
		if r.Chance(40) {
			id := []uint32{0x084, 0x02a, 0x02b, 0x090, 0x094}[r.Intn(5)]
			ln := 4
			if id >= 0x84 {
				ln = 1
			}
			b = append(b, codecParamTLV(id, r.Bytes(ln))...)
			b[0]++
		}
		return b
	}
	by["P0x8103"].wire = func(r *fw.Rng, _ codecCtx) []byte { return params(r) }
	by["T0x0104"].wire = func(r *fw.Rng, _ codecCtx) []byte {
		return append(binary.BigEndian.AppendUint16(nil, codecU16(r)), params(r)...)
	}
	for _, id := range codecExtIDs {
		id := id
		by[fmt.Sprintf("T0x0200AdditionExtension0x%02x", id)].wire = func(r *fw.Rng, _ codecCtx) []byte {
			if id == 0x66 {
				return codecExtContent(r, id, -r.Intn(2))
			}
			return codecExtContent(r, id, 0)
		}
		by[fmt.Sprintf("T0x0200+Extension0x%02x", id)].wire = func(r *fw.Rng, _ codecCtx) []byte {
			b := append(codecLocBytes(r), codecAdditionItems(r, 2)...)
			extra := 0
			if id == 0x66 {
				extra = -r.Intn(2)
			}
			c := codecExtContent(r, id, extra)
			b = append(append(b, id, byte(len(c))), c...)
			return append(b, codecAdditionItems(r, 2)...)
		}
	}
	f := by["jt808.JTMessage"]
	f.wire = func(r *fw.Rng, _ codecCtx) []byte { return codecFrameRaw(r) }
	f.wrap = codecFrameWrap
	by["jt1078.Packet"].wire = func(r *fw.Rng, _ codecCtx) []byte { return codecRTPBytes(r) }
}

// codecValidBody returns a structurally valid input for the entry: the encoding
// of an in-domain value or a wire-generated body (raw form for wrapped entries).
func codecValidBody(e *codecEntry, r *fw.Rng, c codecCtx) []byte {
	if e.gen != nil && (e.wire == nil || r.Chance(50)) {
		v := e.gen(r, c, -1)
		b, _ := (&codecBodyRecv{v: v, ver: c.ver}).encode()
		return b
	}
	if e.wire != nil {
		return e.wire(r, c)
	}
	return nil
}
