package props

import (
	"bytes"
	"fmt"
	"strings"

	"verif/harness/internal/frames"
	"verif/harness/internal/fw"
)

// phoneStr is the standard's reading of the BCD phone: hex digits, leading zeros stripped,
// (all zeros stay as they are).
func phoneStr(bcd []byte) string {
	s := fmt.Sprintf("%x", bcd)
	t := strings.TrimLeft(s, "0")
	if t == "" {
		return s
	}
	return t
}

// expected renders what the standard prescribes for a frame built from (h, body).
func expectedOf(h frames.H, body []byte) string {
	b2i := func(b bool) int {
		if b {
			return 1
		}
		return 0
	}
	pv := 2
	if h.V2019 {
		pv = 3
	}
	sum, no := h.Sum, h.No
	if !h.Frag {
		sum, no = 0, 0
	}
	plain := frames.Plain(h, body, -1)
	return fmt.Sprintf("ok id=%d ver=%d frag=%d enc=%d len=%d pv=%d phone=%s serial=%d sum=%d no=%d body=%s verify=%d",
		h.ID, b2i(h.V2019), b2i(h.Frag), b2i(h.Encrypt), len(body), pv, phoneStr(h.Phone), h.Serial, sum, no, fw.Hex(body), plain[len(plain)-1])
}

func oracleC02(c fw.Case) *fw.OracleFailure {
	if c.Op != "decv" {
		return nil
	}
	want := strings.ReplaceAll(c.Args[1], "|", " ")
	got := fw.SafeExec(func() string { return execDec(c) })
	if got != want {
		return &fw.OracleFailure{Sig: "JTMessage.Decode/valid-frame-" + strings.SplitN(got, " ", 2)[0],
			Msg: "a frame built from the standard's layout was not decoded to its fields: want " + trunc(want, 300) + " got " + trunc(got, 300)}
	}
	return nil
}

func trunc(s string, n int) string {
	if len(s) > n {
		return s[:n] + "…"
	}
	return s
}

func emitDec(emit func(fw.Case), f []byte) { emit(fw.Case{Op: "dec", Args: []string{fw.Hex(f)}}) }

func genC02(r *fw.Rng, tier string, emit func(fw.Case)) {
	nValid, nRand, maxLen := 2500, 3000, 5
	if tier == "thorough" {
		nValid, nRand, maxLen = 40000, 100000, 6
	}
	// (0) the declared length is a 10-bit field and the real length an int: bodies that are 65536·k bytes longer than
	// declared (a comparison done in 16 bits would accept them), with a valid checksum
	nWrap := 6
	if tier == "thorough" {
		nWrap = 40
	}
	for i := 0; i < nWrap; i++ {
		h := frames.RandH(r)
		decl := []int{0, 5, 1023, r.Intn(1024)}[i%4]
		k := 1
		if i%5 == 4 {
			k = 2
		}
		big := make([]byte, decl+65536*k) // zero bytes and a few others, no escapes needed: the frame stays ~64 KiB
		for j := 0; j < len(big); j += 1 + r.Intn(4096) {
			big[j] = byte(1 + r.Intn(0x7c))
		}
		emitDec(emit, frames.Escape(frames.Plain(h, big, decl)))
		emitDec(emit, frames.Escape(frames.Plain(h, big[:len(big)-1], decl)))
	}
	// (0b) an escape introducer followed by EVERY second byte other than 01 / 02, the checksum made consistent with
	// whatever byte a lenient decoder might substitute for the pair (7d+x-1, x, 7d, 7e, nothing at all): such a frame is
	// malformed whatever the checksum says
	for x := 0; x < 256; x++ {
		if x == 1 || x == 2 {
			continue
		}
		h := frames.RandH(r)
		pre, post := r.Bytes(r.Intn(4)), r.Bytes(r.Intn(4))
		for k := range pre {
			pre[k] &= 0x7b
		}
		for k := range post {
			post[k] &= 0x7b
		}
		subs := [][]byte{{byte(0x7d + x - 1)}, {byte(x)}, {0x7d}, {0x7e}, {}, {0x7d, byte(x)}}
		for _, sub := range subs {
			body := append(append(append([]byte{}, pre...), sub...), post...)
			plain := frames.Plain(h, body, -1) // header + body + checksum as the lenient decoder would see them
			if bytes.IndexByte(plain, 0x7e) >= 0 || bytes.IndexByte(plain[:len(plain)-len(post)-1-len(sub)], 0x7d) >= 0 {
				continue // keep the rest of the frame free of bytes that need escaping
			}
			cut := len(plain) - 1 - len(post) - len(sub)
			wire := append([]byte{0x7e}, plain[:cut]...)
			wire = append(wire, 0x7d, byte(x))
			wire = append(wire, plain[cut+len(sub):]...)
			if bytes.IndexByte(wire[cut+3:], 0x7d) >= 0 {
				continue
			}
			emitDec(emit, append(wire, 0x7e))
		}
	}
	// (1) valid frames + their corruptions
	for i := 0; i < nValid; i++ {
		h := frames.RandH(r)
		max := 1023
		if r.Chance(70) {
			max = 60
		}
		body := frames.RandBody(r, max)
		plain := frames.Plain(h, body, -1)
		f := frames.Escape(plain)
		emit(fw.Case{Op: "decv", Args: []string{fw.Hex(f), strings.ReplaceAll(expectedOf(h, body), " ", "|")}})
		// tolerated deviation: checksum 0x7d left unescaped (only when the checksum is 0x7d)
		if plain[len(plain)-1] == 0x7d {
			g := append(append([]byte{}, f[:len(f)-3]...), 0x7d, 0x7e)
			emit(fw.Case{Op: "decv", Args: []string{fw.Hex(g), strings.ReplaceAll(expectedOf(h, body), " ", "|")}})
		}
		switch r.Intn(9) {
		case 0: // truncation at a random point (keeps or loses the closing delimiter)
			k := r.Intn(len(f))
			emitDec(emit, f[:k])
			emitDec(emit, append(append([]byte{}, f[:k]...), 0x7e))
		case 1: // extension
			emitDec(emit, append(append([]byte{}, f...), r.Bytes(1+r.Intn(3))...))
			g := append(append([]byte{}, f[:len(f)-1]...), r.Bytes(1+r.Intn(3))...)
			emitDec(emit, append(g, 0x7e))
		case 2: // single bit flip anywhere
			g := append([]byte{}, f...)
			k := r.Intn(len(g))
			g[k] ^= 1 << r.Intn(8)
			emitDec(emit, g)
		case 3: // single byte replaced, special alphabet
			g := append([]byte{}, f...)
			g[r.Intn(len(g))] = []byte{0x7e, 0x7d, 0x01, 0x02, 0x00, 0xff}[r.Intn(6)]
			emitDec(emit, g)
		case 4: // declared length off by one / other, checksum recomputed (so only the length is wrong)
			for _, d := range []int{-1, 1, 2, 1023} {
				l := len(body) + d
				if l < 0 {
					continue
				}
				emitDec(emit, frames.Escape(frames.Plain(h, body, l)))
			}
		case 5: // flipped fragment / version bit with checksum recomputed: header no longer complete or body shifted
			h2 := h
			h2.Frag = !h.Frag
			p2 := frames.Plain(h, body, -1)
			p2[2] ^= 0x20
			p2[len(p2)-1] ^= 0x20
			emitDec(emit, frames.Escape(p2))
			p3 := frames.Plain(h, body, -1)
			p3[2] ^= 0x40
			p3[len(p3)-1] ^= 0x40
			emitDec(emit, frames.Escape(p3))
		case 6: // bad escape pair somewhere: 7d followed by a byte other than 01/02
			g := append([]byte{}, f...)
			if len(g) > 3 {
				k := 1 + r.Intn(len(g)-2)
				g[k] = 0x7d
				emitDec(emit, g)
			}
		case 7: // header cut short but checksum valid
			k := 1 + r.Intn(min(len(plain)-1, 22))
			q := append([]byte{}, plain[:k]...)
			q = append(q, frames.Xor(q))
			emitDec(emit, frames.Escape(q))
		case 8: // wrong checksum only
			q := append([]byte{}, plain...)
			q[len(q)-1] ^= byte(1 + r.Intn(255))
			emitDec(emit, frames.Escape(q))
		}
	}
	// (2) random strings, delimited or not, over the special alphabet or uniform
	alpha := []byte{0x7e, 0x7d, 0x01, 0x02, 0x00, 0x30, 0xff}
	for i := 0; i < nRand; i++ {
		n := r.Intn(40)
		var s []byte
		if r.Bool() {
			s = r.BytesFrom(n, alpha, 80)
		} else {
			s = r.Bytes(n)
		}
		if r.Chance(70) {
			s = append(append([]byte{0x7e}, s...), 0x7e)
		}
		emitDec(emit, s)
	}
	// (3) exhaustive: every string up to maxLen over the special alphabet
	var rec func(prefix []byte)
	rec = func(prefix []byte) {
		emitDec(emit, prefix)
		if len(prefix) == maxLen {
			return
		}
		for _, a := range alpha {
			rec(append(append([]byte{}, prefix...), a))
		}
	}
	rec(nil)
	// (4) exhaustive single-byte corruption of a few short valid frames
	nf := 6
	if tier == "thorough" {
		nf = 60
	}
	for i := 0; i < nf; i++ {
		h := frames.RandH(r)
		f := frames.Build(h, frames.RandBody(r, 6))
		for k := range f {
			for _, v := range alpha {
				g := append([]byte{}, f...)
				g[k] = v
				emitDec(emit, g)
			}
			g := append([]byte{}, f...)
			g[k] ^= 0x80
			emitDec(emit, g)
			emitDec(emit, f[:k])
		}
	}
}

var C02 = &fw.Prop{ID: "C02", Gen: genC02, Oracle: oracleC02,
	Exec: func(c fw.Case) string {
		switch c.Op {
		case "dec", "decv":
			return execDec(c)
		}
		return "bad-op"
	}}
