package props

// Shared machinery of the codec properties C03 and C07: guarded execution
// (panic capture with the panicking library function, 2 s watchdog) and a
// structural comparison that reports the first differing field path.

import (
	"fmt"
	"reflect"
	"runtime"
	"sort"
	"strings"
	"sync/atomic"
	"time"
	"verif/harness/internal/fw"
)

const codecRepoPrefix = "github.com/cuteLittleDevil/go-jt808/"

// codecWatchdog bounds every single call into the library.
const codecWatchdog = 2 * time.Second

type codecGuardRes struct {
	panicked bool
	site     string // innermost library function on the panicking stack, e.g. "T0x0200AdditionDetails.decode"
	what     string // panic value
	timeout  bool
}

// codecPanicSite walks the stack of a panic in progress (called from the
// deferred function) and names the innermost frame that belongs to the library.
func codecPanicSite() string {
	pcs := make([]uintptr, 64)
	n := runtime.Callers(2, pcs)
	fr := runtime.CallersFrames(pcs[:n])
	for {
		f, more := fr.Next()
		if strings.HasPrefix(f.Function, codecRepoPrefix) {
			return codecShortFunc(f.Function)
		}
		if !more {
			break
		}
	}
	return ""
}

// codecShortFunc turns "github.com/x/y/protocol/model.(*T0x0704).Parse" into
// "T0x0704.Parse", "…/model.ParamContent[...].encode" into "ParamContent.encode"
// and package level functions "…/utils.BCD2Time" into "utils.BCD2Time".
func codecShortFunc(full string) string {
	s := full
	if i := strings.LastIndex(s, "/"); i >= 0 {
		s = s[i+1:]
	}
	// s = pkg.(*T).m | pkg.T.m | pkg.f | pkg.T[...].m | pkg.(*T).m.func1
	pkg := s
	rest := ""
	if i := strings.Index(s, "."); i >= 0 {
		pkg, rest = s[:i], s[i+1:]
	}
	// drop type parameters
	for {
		i := strings.Index(rest, "[")
		if i < 0 {
			break
		}
		depth, j := 0, i
		for ; j < len(rest); j++ {
			if rest[j] == '[' {
				depth++
			} else if rest[j] == ']' {
				depth--
				if depth == 0 {
					break
				}
			}
		}
		if j >= len(rest) {
			rest = rest[:i]
			break
		}
		rest = rest[:i] + rest[j+1:]
	}
	rest = strings.NewReplacer("(*", "", ")", "").Replace(rest)
	parts := strings.Split(rest, ".")
	// drop closure suffixes func1, func2.1, 1 …
	var keep []string
	for _, p := range parts {
		if strings.HasPrefix(p, "func") || (len(p) > 0 && p[0] >= '0' && p[0] <= '9') {
			break
		}
		keep = append(keep, p)
	}
	if len(keep) >= 2 {
		return strings.Join(keep, ".")
	}
	return pkg + "." + strings.Join(keep, ".")
}

// codecGuard runs f in its own goroutine under the watchdog.  A goroutine that
// does not come back is abandoned (it cannot be killed) and reported as timeout.
func codecGuard(f func()) codecGuardRes {
	done := make(chan codecGuardRes, 1)
	go func() {
		var res codecGuardRes
		defer func() {
			if e := recover(); e != nil {
				res.panicked = true
				res.site = codecPanicSite()
				res.what = fmt.Sprint(e)
			}
			done <- res
		}()
		f()
	}()
	t := time.NewTimer(codecWatchdog)
	defer t.Stop()
	select {
	case r := <-done:
		return r
	case <-t.C:
		atomic.AddInt32(&fw.HungCases, 1)
		return codecGuardRes{timeout: true}
	}
}

// ---------------------------------------------------------------------------
// structural comparison

// codecDiffOpt tunes codecDiff.
type codecDiffOpt struct {
	// skip returns true for field paths that are excluded from the comparison.
	skip func(path string) bool
}

// codecDiff compares two values the way reflect.DeepEqual does, with three
// documented deviations, and returns "" when they are equal or else the path of
// the first differing component (struct fields in declaration order, map keys in
// sorted order) followed by a short rendering of both sides.
//
//  1. a nil slice/map equals an empty one (neither the wire format nor any
//     reader of the value can tell them apart; DeepEqual would);
//  2. func values are ignored (the two hook fields CustomAdditionContentFunc and
//     ParamParseBeforeFunc are configuration, not parse state; DeepEqual reports
//     any two non-nil funcs as different);
//  3. unexported fields ARE compared (as DeepEqual does), read through reflect
//     accessors that do not need Interface().
func codecDiff(a, b interface{}, opt *codecDiffOpt) string {
	return codecDiffV(reflect.ValueOf(a), reflect.ValueOf(b), "", opt, 0)
}

func codecJoin(path, f string) string {
	if path == "" {
		return f
	}
	return path + "." + f
}

func codecShowV(v reflect.Value) string {
	if !v.IsValid() {
		return "<invalid>"
	}
	switch v.Kind() {
	case reflect.Bool:
		return fmt.Sprint(v.Bool())
	case reflect.Int, reflect.Int8, reflect.Int16, reflect.Int32, reflect.Int64:
		return fmt.Sprint(v.Int())
	case reflect.Uint, reflect.Uint8, reflect.Uint16, reflect.Uint32, reflect.Uint64, reflect.Uintptr:
		return fmt.Sprint(v.Uint())
	case reflect.String:
		s := v.String()
		if len(s) > 40 {
			s = s[:40] + "…"
		}
		return fmt.Sprintf("%q", s)
	case reflect.Slice, reflect.Map:
		if v.IsNil() {
			return "nil"
		}
		return fmt.Sprintf("%s(len=%d)", v.Kind(), v.Len())
	case reflect.Ptr, reflect.Interface:
		if v.IsNil() {
			return "nil"
		}
		return v.Kind().String()
	}
	return v.Kind().String()
}

func codecDiffV(a, b reflect.Value, path string, opt *codecDiffOpt, depth int) string {
	if opt != nil && opt.skip != nil && path != "" && opt.skip(path) {
		return ""
	}
	if depth > 60 {
		return ""
	}
	if !a.IsValid() || !b.IsValid() {
		if a.IsValid() == b.IsValid() {
			return ""
		}
		return path + ": " + codecShowV(a) + " vs " + codecShowV(b)
	}
	if a.Type() != b.Type() {
		return path + ": type " + a.Type().String() + " vs " + b.Type().String()
	}
	differ := func() string { return path + ": " + codecShowV(a) + " vs " + codecShowV(b) }
	switch a.Kind() {
	case reflect.Bool:
		if a.Bool() != b.Bool() {
			return differ()
		}
	case reflect.Int, reflect.Int8, reflect.Int16, reflect.Int32, reflect.Int64:
		if a.Int() != b.Int() {
			return differ()
		}
	case reflect.Uint, reflect.Uint8, reflect.Uint16, reflect.Uint32, reflect.Uint64, reflect.Uintptr:
		if a.Uint() != b.Uint() {
			return differ()
		}
	case reflect.Float32, reflect.Float64:
		if a.Float() != b.Float() {
			return differ()
		}
	case reflect.String:
		if a.String() != b.String() {
			return differ()
		}
	case reflect.Func:
		return ""
	case reflect.Ptr:
		if a.IsNil() || b.IsNil() {
			if a.IsNil() != b.IsNil() {
				return differ()
			}
			return ""
		}
		if a.Pointer() == b.Pointer() {
			return ""
		}
		return codecDiffV(a.Elem(), b.Elem(), path, opt, depth+1)
	case reflect.Interface:
		if a.IsNil() || b.IsNil() {
			if a.IsNil() != b.IsNil() {
				return differ()
			}
			return ""
		}
		return codecDiffV(a.Elem(), b.Elem(), path, opt, depth+1)
	case reflect.Struct:
		for i := 0; i < a.NumField(); i++ {
			if d := codecDiffV(a.Field(i), b.Field(i), codecJoin(path, a.Type().Field(i).Name), opt, depth+1); d != "" {
				return d
			}
		}
	case reflect.Array:
		for i := 0; i < a.Len(); i++ {
			if d := codecDiffV(a.Index(i), b.Index(i), fmt.Sprintf("%s[%d]", path, i), opt, depth+1); d != "" {
				return d
			}
		}
	case reflect.Slice:
		if a.Len() != b.Len() {
			return fmt.Sprintf("%s: len %d vs %d", path, a.Len(), b.Len())
		}
		for i := 0; i < a.Len(); i++ {
			if d := codecDiffV(a.Index(i), b.Index(i), fmt.Sprintf("%s[%d]", path, i), opt, depth+1); d != "" {
				return d
			}
		}
	case reflect.Map:
		ka, kb := codecSortedKeys(a), codecSortedKeys(b)
		// walk both sorted key lists; the first key present on one side only is the difference
		seen := map[string]bool{}
		for _, k := range ka {
			ks := codecKeyString(k)
			seen[ks] = true
			bv := b.MapIndex(k)
			if !bv.IsValid() {
				return fmt.Sprintf("%s[%s]: present vs absent", path, ks)
			}
			if d := codecDiffV(a.MapIndex(k), bv, fmt.Sprintf("%s[%s]", path, ks), opt, depth+1); d != "" {
				return d
			}
		}
		for _, k := range kb {
			if ks := codecKeyString(k); !seen[ks] {
				return fmt.Sprintf("%s[%s]: absent vs present", path, ks)
			}
		}
	default:
		// chan, unsafe pointer, complex: not used by the library's value types
	}
	return ""
}

func codecKeyString(k reflect.Value) string {
	switch k.Kind() {
	case reflect.Int, reflect.Int8, reflect.Int16, reflect.Int32, reflect.Int64:
		return fmt.Sprintf("%d", k.Int())
	case reflect.Uint, reflect.Uint8, reflect.Uint16, reflect.Uint32, reflect.Uint64:
		return fmt.Sprintf("0x%x", k.Uint())
	case reflect.String:
		return fmt.Sprintf("%q", k.String())
	}
	return k.Kind().String()
}

func codecSortedKeys(m reflect.Value) []reflect.Value {
	ks := m.MapKeys()
	sort.Slice(ks, func(i, j int) bool {
		a, b := ks[i], ks[j]
		switch a.Kind() {
		case reflect.Int, reflect.Int8, reflect.Int16, reflect.Int32, reflect.Int64:
			return a.Int() < b.Int()
		case reflect.Uint, reflect.Uint8, reflect.Uint16, reflect.Uint32, reflect.Uint64:
			return a.Uint() < b.Uint()
		case reflect.String:
			return a.String() < b.String()
		}
		return false
	})
	return ks
}

// codecTopField is the first component of a diff path ("Items[2].Len: 1 vs 2" -> "Items").
func codecTopField(d string) string {
	p := d
	if i := strings.Index(p, ":"); i >= 0 {
		p = p[:i]
	}
	for i := 0; i < len(p); i++ {
		if p[i] == '.' || p[i] == '[' {
			return p[:i]
		}
	}
	return p
}
