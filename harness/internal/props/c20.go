package props

import (
	"bytes"
	"encoding/hex"
	"fmt"
	"io"
	"log/slog"
	"sort"
	"strconv"
	"strings"

	"github.com/cuteLittleDevil/go-jt808/protocol/jt808"
	"github.com/cuteLittleDevil/go-jt808/service"
	"github.com/cuteLittleDevil/go-jt808/shared/consts"
	"github.com/cuteLittleDevil/go-jt808/terminal"
	"verif/harness/internal/fw"
)

// C20: the terminal simulator against the codec, the reply model and a live server.
//
//	tgen <ver 1|2|3> <phone digits> <skip> <cmd[,cmd...]>   cmd = hex id (default body) | hexid:bodyhex (custom body)
//	     -> "ok <frame>,<frame>,..."  ("nil" for a command the simulator has no default for)
//	texp <ver> <phone digits> <seq> <framehex>              -> "ok <ExpectedReply hex>" | "nil"
//
// The model side (Lean) generates the same frames from JT.Term and the regenerated default table, and the reply
// from the reply model of C06. The oracle decodes every frame with the real codec and, for texp with seq <= 3,
// asks a live server.

func termVersion(v int) consts.ProtocolVersionType { return consts.ProtocolVersionType(v) }

func quietSlog() func() {
	old := slog.Default()
	slog.SetDefault(slog.New(slog.NewTextHandler(io.Discard, nil)))
	return func() { slog.SetDefault(old) }
}

type tgenCmd struct {
	id     int
	custom bool
	body   []byte
}

func parseTgenCmds(s string) []tgenCmd {
	var out []tgenCmd
	for _, p := range strings.Split(s, ",") {
		a := strings.SplitN(p, ":", 2)
		id, _ := strconv.ParseInt(a[0], 16, 32)
		c := tgenCmd{id: int(id)}
		if len(a) == 2 {
			c.custom = true
			c.body = fw.UnHex(a[1])
		}
		out = append(out, c)
	}
	return out
}

func execTgen(c fw.Case) string {
	defer quietSlog()()
	v, _ := strconv.Atoi(c.Args[0])
	skip, _ := strconv.Atoi(c.Args[2])
	tm := terminal.New(terminal.WithHeader(termVersion(v), c.Args[1]))
	for i := 0; i < skip; i++ {
		tm.CreateCommandData(consts.T0002HeartBeat, nil)
	}
	var fs []string
	for _, cmd := range parseTgenCmds(c.Args[3]) {
		var f []byte
		if cmd.custom {
			f = tm.CreateCommandData(consts.JT808CommandType(cmd.id), cmd.body)
		} else {
			f = tm.CreateDefaultCommandData(consts.JT808CommandType(cmd.id))
		}
		if f == nil {
			fs = append(fs, "nil")
		} else {
			fs = append(fs, hex.EncodeToString(f))
		}
	}
	return "ok " + strings.Join(fs, ",")
}

func oracleTgen(c fw.Case) *fw.OracleFailure {
	defer quietSlog()()
	res := execTgen(c)
	v, _ := strconv.Atoi(c.Args[0])
	skip, _ := strconv.Atoi(c.Args[2])
	phone := strings.TrimLeft(c.Args[1], "0")
	cmds := parseTgenCmds(c.Args[3])
	frames := strings.Split(strings.TrimPrefix(res, "ok "), ",")
	defaults := terminal.VerifDefaultHandles(termVersion(v))
	produced := 0 // frames generated so far: a request that yields no frame consumes no serial number
	for i, fh := range frames {
		cmd := cmds[i]
		tag := fmt.Sprintf("%04x", cmd.id)
		if fh == "nil" {
			if !cmd.custom {
				if _, ok := defaults[consts.JT808CommandType(cmd.id)]; !ok {
					continue
				}
			}
			return &fw.OracleFailure{Sig: "term/no-frame", Msg: "no frame for command " + tag}
		}
		f := fw.UnHex(fh)
		if f[0] != 0x7e || f[len(f)-1] != 0x7e || bytes.IndexByte(f[1:len(f)-1], 0x7e) >= 0 {
			return &fw.OracleFailure{Sig: "term/delimiter", Msg: "delimiter inside the frame of " + tag}
		}
		m := jt808.NewJTMessage()
		if err := m.Decode(f); err != nil {
			return &fw.OracleFailure{Sig: "term/undecodable", Msg: fmt.Sprintf("frame of %s is rejected by the decoder: %v", tag, err)}
		}
		h := m.Header
		if int(h.ID) != cmd.id {
			return &fw.OracleFailure{Sig: "term/id", Msg: fmt.Sprintf("frame of %s decodes with id %04x", tag, h.ID)}
		}
		if strings.TrimLeft(h.TerminalPhoneNo, "0") != phone {
			return &fw.OracleFailure{Sig: "term/phone", Msg: fmt.Sprintf("phone %q decodes as %q", c.Args[1], h.TerminalPhoneNo)}
		}
		wantLen, wantFlag := 6, false
		if v == 3 {
			wantLen, wantFlag = 10, true
		}
		verFlag := f[3]&0x40 != 0 && !bytes.Contains(f[1:5], []byte{0x7d}) // raw attribute word (no escape in the first bytes)
		plain := rawUnescape(f)
		verFlag = plain[2]&0x40 != 0
		if verFlag != wantFlag || len(plain) != 2+2+btoi(wantFlag)+wantLen+2+len(m.Body)+1 {
			return &fw.OracleFailure{Sig: "term/layout", Msg: fmt.Sprintf("version %d frame has version flag %v and %d plain bytes for a %d-byte body", v, verFlag, len(plain), len(m.Body))}
		}
		produced++
		if want := uint16(skip + produced); h.SerialNumber != want {
			return &fw.OracleFailure{Sig: "term/serial", Msg: fmt.Sprintf("frame %d after %d earlier ones has serial %d, want %d", i, skip, h.SerialNumber, want)}
		}
		if cmd.custom {
			if !bytes.Equal(m.Body, cmd.body) {
				return &fw.OracleFailure{Sig: "term/body", Msg: "custom body not carried verbatim for " + tag}
			}
			continue
		}
		// default body: parses with the matching type and re-encodes identically
		hd, ok := terminal.VerifDefaultHandles(termVersion(v))[consts.JT808CommandType(cmd.id)]
		if !ok {
			return &fw.OracleFailure{Sig: "term/unknown-default", Msg: tag}
		}
		if hd.Protocol() != consts.JT808CommandType(cmd.id) {
			return &fw.OracleFailure{Sig: "term/type-mismatch", Msg: fmt.Sprintf("default handler of %s is a %s", tag, hd.Protocol())}
		}
		var perr error
		func() {
			defer func() {
				if r := recover(); r != nil {
					perr = fmt.Errorf("panic: %v", r)
				}
			}()
			perr = hd.Parse(m)
		}()
		if perr != nil {
			return &fw.OracleFailure{Sig: "term/default-parse/" + tag, Msg: fmt.Sprintf("version %d default body of %s does not parse: %v", v, tag, perr)}
		}
		if re := hd.Encode(); !bytes.Equal(re, m.Body) {
			return &fw.OracleFailure{Sig: "term/default-reencode/" + tag, Msg: fmt.Sprintf("version %d default body of %s re-encodes differently: %x vs %x", v, tag, re, m.Body)}
		}
	}
	return nil
}

func btoi(b bool) int {
	if b {
		return 1
	}
	return 0
}

// rawUnescape: plain bytes between the delimiters (harness-side, from the standard)
func rawUnescape(f []byte) []byte {
	var out []byte
	in := f[1 : len(f)-1]
	for i := 0; i < len(in); i++ {
		if in[i] == 0x7d && i+1 < len(in) {
			if in[i+1] == 0x01 {
				out = append(out, 0x7d)
				i++
				continue
			}
			if in[i+1] == 0x02 {
				out = append(out, 0x7e)
				i++
				continue
			}
		}
		out = append(out, in[i])
	}
	return out
}

func execTexp(c fw.Case) string {
	defer quietSlog()()
	v, _ := strconv.Atoi(c.Args[0])
	seq, _ := strconv.Atoi(c.Args[2])
	tm := terminal.New(terminal.WithHeader(termVersion(v), c.Args[1]))
	r := tm.ExpectedReply(uint16(seq), c.Args[3])
	if r == nil {
		return "nil"
	}
	return "ok " + hex.EncodeToString(r)
}

func oracleTexp(c fw.Case) *fw.OracleFailure {
	seq, _ := strconv.Atoi(c.Args[2])
	if seq > 3 {
		return nil
	}
	res := execTexp(c)
	frame := fw.UnHex(c.Args[3])
	// a live server: `seq` heartbeats of the same terminal first (each answered, platform serial 0..seq-1), then the frame
	m := jt808.NewJTMessage()
	if err := m.Decode(frame); err != nil {
		return nil
	}
	var writes [][]byte
	var expect []int
	for i := 0; i < seq; i++ {
		hb := *m.Header
		hb.ReplyID = 0x0002
		hb.PlatformSerialNumber = uint16(60000 + i)
		writes = append(writes, hb.Encode(nil))
		expect = append(expect, 1)
	}
	writes = append(writes, frame)
	expect = append(expect, 1)
	cr := runConv(writes, expect)
	if len(cr.replies) != seq+1 {
		return &fw.OracleFailure{Sig: "term/server-replies", Msg: fmt.Sprintf("live server sent %d replies, expected %d", len(cr.replies), seq+1)}
	}
	got := "ok " + hex.EncodeToString(cr.replies[seq])
	if got != res {
		return &fw.OracleFailure{Sig: fmt.Sprintf("term/expected-reply/%04x", m.Header.ID), Msg: fmt.Sprintf("ExpectedReply(%d) = %s, live server sent %s", seq, trunc(res, 300), trunc(got, 300))}
	}
	return nil
}

// reply-bearing commands: the simulator has a default for them AND the server's default table answers them
func termReplyBearingIDs() []int {
	srv := service.VerifDefaultHandlers()
	var out []int
	for id := range terminal.VerifDefaultHandles(consts.JT808Protocol2013) {
		if h, ok := srv[uint16(id)]; ok && h.HasReply() {
			out = append(out, int(id))
		}
	}
	sort.Ints(out)
	return out
}

func genC20(r *fw.Rng, tier string, emit func(fw.Case)) {
	allIDs := []int{0x0001, 0x0002, 0x0100, 0x0102, 0x0200, 0x0704, 0x1003, 0x1205, 0x1206, 0x1210, 0x1211, 0x1212, 0x8001, 0x8003, 0x8100, 0x8104, 0x8801, 0x9003, 0x9101, 0x9102, 0x9201, 0x9205, 0x9206, 0x9207}
	randPhone := func(v int) string {
		max := 12
		if v == 3 {
			max = 20
		}
		n := 1 + r.Intn(max)
		switch r.Intn(6) {
		case 0:
			n = max
		case 1:
			n = 1
		}
		b := make([]byte, n)
		for i := range b {
			b[i] = byte('0' + r.Intn(10))
		}
		if r.Chance(15) {
			b[0] = '0'
		}
		return string(b)
	}
	// EXHAUSTIVE: every default command of every version, one phone each + all of them in one sequence
	for v := 1; v <= 3; v++ {
		var all []string
		for _, id := range allIDs {
			emit(fw.Case{Op: "tgen", Args: []string{strconv.Itoa(v), "13800138000", "0", fmt.Sprintf("%04x", id)}})
			all = append(all, fmt.Sprintf("%04x", id))
		}
		emit(fw.Case{Op: "tgen", Args: []string{strconv.Itoa(v), randPhone(v), "0", strings.Join(all, ",")}})
		// serial wrap
		emit(fw.Case{Op: "tgen", Args: []string{strconv.Itoa(v), randPhone(v), "65533", "0002,0200,0002,0100,0002"}})
		emit(fw.Case{Op: "tgen", Args: []string{strconv.Itoa(v), randPhone(v), "65535", "0002"}})
		emit(fw.Case{Op: "tgen", Args: []string{strconv.Itoa(v), randPhone(v), "0", "0002,0800,0002,0104,0801,0200"}})
	}
	n := 300
	if tier == "thorough" {
		n = 6000
	}
	// phones whose template checksum needs escaping are found by search below; random phones first
	for i := 0; i < n; i++ {
		v := 1 + r.Intn(3)
		var cmds []string
		for k := 0; k < 1+r.Intn(4); k++ {
			id := allIDs[r.Intn(len(allIDs))]
			if r.Chance(45) {
				l := []int{0, 1, 5, 28, 100, 999, 1000, 1023}[r.Intn(8)]
				if r.Chance(40) {
					l = r.Intn(1024)
				}
				body := r.Bytes(l)
				if r.Chance(30) {
					body = r.BytesFrom(l, []byte{0x7e, 0x7d, 0x01, 0x02}, 60)
				}
				if r.Chance(20) {
					id = 1 + r.Intn(65535)
				}
				cmds = append(cmds, fmt.Sprintf("%04x:%s", id, fw.Hex(body)))
			} else {
				if r.Chance(15) { // a command the simulator has no default for: no frame, and no serial consumed
					id = []int{0x0800, 0x0104, 0x0801, 0x0805, 0xfff0, 0x8103}[r.Intn(6)]
				}
				cmds = append(cmds, fmt.Sprintf("%04x", id))
			}
		}
		skip := []int{0, 0, 1, 7, 255, 256, 4095, 65530, 65534}[r.Intn(9)]
		emit(fw.Case{Op: "tgen", Args: []string{strconv.Itoa(v), randPhone(v), strconv.Itoa(skip), strings.Join(cmds, ",")}})
	}
	// all two-digit phones for both layouts (template checksums sweep many values)
	for v := 2; v <= 3; v++ {
		for p := 0; p < 100; p++ {
			emit(fw.Case{Op: "tgen", Args: []string{strconv.Itoa(v), fmt.Sprintf("%02d", p), "0", "0002"}})
		}
	}
	// ExpectedReply: every reply-bearing default frame of every version x several serials, plus random custom bodies
	m := 60
	if tier == "thorough" {
		m = 1500
	}
	mk := func(v int, phone string, skip int, id int, custom []byte) string {
		q := quietSlog()
		defer q()
		tm := terminal.New(terminal.WithHeader(termVersion(v), phone))
		for i := 0; i < skip; i++ {
			tm.CreateCommandData(consts.T0002HeartBeat, nil)
		}
		if custom != nil {
			return hex.EncodeToString(tm.CreateCommandData(consts.JT808CommandType(id), custom))
		}
		return hex.EncodeToString(tm.CreateDefaultCommandData(consts.JT808CommandType(id)))
	}
	termReplyBearing := termReplyBearingIDs()
	for v := 1; v <= 3; v++ {
		for _, id := range termReplyBearing {
			for _, seq := range []int{0, 2, 65535} {
				emit(fw.Case{Op: "texp", Args: []string{strconv.Itoa(v), "13800138000", strconv.Itoa(seq), mk(v, "13800138000", r.Intn(3), id, nil)}})
			}
		}
	}
	for i := 0; i < m; i++ {
		v := 1 + r.Intn(3)
		ph := randPhone(v)
		id := termReplyBearing[r.Intn(len(termReplyBearing))]
		seq := []int{0, 1, 2, 3, 255, 256, 32768, 65535}[r.Intn(8)]
		if r.Chance(30) {
			seq = r.Intn(65536)
		}
		emit(fw.Case{Op: "texp", Args: []string{strconv.Itoa(v), ph, strconv.Itoa(seq), mk(v, ph, r.Intn(70000), id, nil)}})
	}
}

var C20 = &fw.Prop{ID: "C20", Gen: genC20,
	Exec: func(c fw.Case) string {
		if c.Op == "texp" {
			return execTexp(c)
		}
		return execTgen(c)
	},
	Oracle: func(c fw.Case) *fw.OracleFailure {
		if c.Op == "texp" {
			return oracleTexp(c)
		}
		return oracleTgen(c)
	},
	Class: func(c fw.Case, res string) string {
		if c.Op == "texp" {
			return "texp:v" + c.Args[0]
		}
		cl := "tgen:v" + c.Args[0]
		if strings.Contains(c.Args[3], ":") {
			cl += ":custom"
		}
		if c.Args[2] != "0" {
			cl += ":skip"
		}
		return cl
	}}
