package props

import (
	"fmt"
	"sort"
	"strconv"
	"strings"

	"github.com/cuteLittleDevil/go-jt808/attachment"
	"github.com/cuteLittleDevil/go-jt808/protocol/jt808"
	"github.com/cuteLittleDevil/go-jt808/protocol/model"
	"verif/harness/internal/fw"
)

type seg struct{ off, ln int }

func parseSegs(s string) []seg {
	if s == "-" {
		return nil
	}
	var out []seg
	for _, p := range strings.Split(s, ",") {
		a := strings.Split(p, ":")
		o, _ := strconv.Atoi(a[0])
		l, _ := strconv.Atoi(a[1])
		out = append(out, seg{o, l})
	}
	return out
}

func showSegs(s []seg) string {
	if len(s) == 0 {
		return "-"
	}
	var p []string
	for _, x := range s {
		p = append(p, fmt.Sprintf("%d:%d", x.off, x.ln))
	}
	return strings.Join(p, ",")
}

func pkgOf(F, cur int, segs []seg) *attachment.Package {
	p := &attachment.Package{FileSize: uint32(F), CurrentSize: uint32(cur), OffsetRecord: map[int]int{}, OffsetDataRecord: map[int][]byte{}}
	for _, s := range segs {
		p.OffsetRecord[s.off] = s.ln
	}
	return p
}

func implMiss(F, cur int, segs []seg) []seg {
	var out []seg
	for _, g := range pkgOf(F, cur, segs).StatisticalMissSegments() {
		out = append(out, seg{int(g.DataOffset), int(g.DataLength)})
	}
	return out
}

// implReport drives the 0x1212 -> 0x9212 reply path with the computed list.
func implReport(F, cur int, segs []seg, name []byte, ftype byte) []byte {
	t1211 := model.T0x1211{FileNameLen: byte(len(name)), FileName: string(name), FileType: ftype, FileSize: uint32(F)}
	jt := jt808.NewJTMessage()
	jt.Body = t1211.Encode()
	t := &model.T0x1212{}
	t.P0x9212RetransmitPacketList = pkgOf(F, cur, segs).StatisticalMissSegments()
	b, err := t.ReplyBody(jt)
	if err != nil {
		return nil
	}
	return b
}

// bruteMissing computes the maximal missing ranges of [0,F) by marking (harness-side specification).
func bruteMissing(F int, segs []seg) []seg {
	cov := make([]bool, F)
	for _, s := range segs {
		for i := s.off; i < s.off+s.ln && i < F; i++ {
			cov[i] = true
		}
	}
	var out []seg
	i := 0
	for i < F {
		if cov[i] {
			i++
			continue
		}
		j := i
		for j < F && !cov[j] {
			j++
		}
		out = append(out, seg{i, j - i})
		i = j
	}
	return out
}

func validSegs(F int, segs []seg) bool {
	s := append([]seg{}, segs...)
	sort.Slice(s, func(i, j int) bool { return s[i].off < s[j].off })
	end := 0
	for _, x := range s {
		if x.ln <= 0 || x.off < end || x.off+x.ln > F {
			return false
		}
		end = x.off + x.ln
	}
	return true
}

func sumLen(segs []seg) int {
	t := 0
	for _, s := range segs {
		t += s.ln
	}
	return t
}

func oracleC16(c fw.Case) *fw.OracleFailure {
	F, _ := strconv.Atoi(c.Args[0])
	cur, _ := strconv.Atoi(c.Args[1])
	segs := parseSegs(c.Args[2])
	if !validSegs(F, segs) || cur != sumLen(segs) || F > 5_000_000 {
		return nil // outside the quantifier (observed only through the correspondence)
	}
	want := bruteMissing(F, segs)
	switch c.Op {
	case "miss":
		got := implMiss(F, cur, segs)
		if showSegs(got) != showSegs(want) {
			return &fw.OracleFailure{Sig: "StatisticalMissSegments/ranges", Msg: fmt.Sprintf("F=%d received=%s want=%s got=%s", F, showSegs(segs), showSegs(want), showSegs(got))}
		}
		// after resending exactly the reported ranges the next report is empty
		all := append(append([]seg{}, segs...), got...)
		if validSegs(F, all) {
			if again := implMiss(F, sumLen(all), all); len(again) != 0 {
				return &fw.OracleFailure{Sig: "StatisticalMissSegments/after-resend", Msg: fmt.Sprintf("F=%d after resending %s still reports %s", F, showSegs(got), showSegs(again))}
			}
		}
	case "rep":
		if len(want) > 255 {
			return nil
		}
		name := fw.UnHex(c.Args[3])
		ft, _ := strconv.Atoi(c.Args[4])
		b := implReport(F, cur, segs, name, byte(ft))
		p := &model.P0x9212{}
		jt := jt808.NewJTMessage()
		jt.Body = b
		if err := p.Parse(jt); err != nil {
			return &fw.OracleFailure{Sig: "T0x1212.ReplyBody/unparseable", Msg: fmt.Sprintf("0x9212 body %x does not parse: %v", b, err)}
		}
		var got []seg
		for _, g := range p.P0x9212RetransmitPacketList {
			got = append(got, seg{int(g.DataOffset), int(g.DataLength)})
		}
		wantRes := byte(0)
		if len(want) > 0 {
			wantRes = 1
		}
		if p.UploadResult != wantRes || int(p.RetransmitPacketNumber) != len(want) || showSegs(got) != showSegs(want) || p.FileName != string(name) || p.FileType != byte(ft) {
			return &fw.OracleFailure{Sig: "T0x1212.ReplyBody/report-mismatch", Msg: fmt.Sprintf("F=%d received=%s: result=%d count=%d ranges=%s, want result=%d ranges=%s", F, showSegs(segs), p.UploadResult, p.RetransmitPacketNumber, showSegs(got), wantRes, showSegs(want))}
		}
	}
	return nil
}

// randChunks cuts [0,F) into pieces and keeps some of them.
func randChunks(r *fw.Rng, F int, maxPieces int, keepPct int) []seg {
	if F == 0 {
		return nil
	}
	n := 1 + r.Intn(maxPieces)
	cuts := map[int]bool{0: true, F: true}
	for i := 0; i < n; i++ {
		cuts[r.Intn(F+1)] = true
	}
	var cs []int
	for c := range cuts {
		cs = append(cs, c)
	}
	sort.Ints(cs)
	var out []seg
	for i := 0; i+1 < len(cs); i++ {
		if r.Chance(keepPct) {
			out = append(out, seg{cs[i], cs[i+1] - cs[i]})
		}
	}
	// shuffle (arrival order / map order)
	for i := len(out) - 1; i > 0; i-- {
		j := r.Intn(i + 1)
		out[i], out[j] = out[j], out[i]
	}
	return out
}

func genC16(r *fw.Rng, tier string, emit func(fw.Case)) {
	n := 6000
	if tier == "thorough" {
		n = 150000
	}
	for i := 0; i < n; i++ {
		var F int
		switch r.Intn(5) {
		case 0:
			F = r.Intn(12)
		case 1:
			F = 1 + r.Intn(300)
		case 2:
			F = 65536*r.Intn(4) + r.Intn(70000)
		case 3:
			F = r.Pick([]int{1, 2, 255, 256, 65535, 65536, 1 << 20})
		default:
			F = 1 + r.Intn(5000)
		}
		maxP := 12
		if r.Chance(10) {
			maxP = 600 // many gaps (up to > 255)
		}
		segs := randChunks(r, F, maxP, []int{0, 30, 50, 80, 100}[r.Intn(5)])
		cur := sumLen(segs)
		args := []string{strconv.Itoa(F), strconv.Itoa(cur), showSegs(segs)}
		emit(fw.Case{Op: "miss", Args: args})
		if i%3 == 0 {
			name := r.Bytes(r.Intn(20))
			emit(fw.Case{Op: "rep", Args: append(append([]string{}, args...), fw.Hex(name), strconv.Itoa(r.Intn(5)))})
		}
		if i%10 == 0 {
			// outside the quantifier: inconsistent counter, overlapping / zero-length / out-of-file chunks (model vs code only)
			bad := append([]seg{}, segs...)
			switch r.Intn(4) {
			case 0:
				bad = append(bad, seg{r.Intn(F + 1), 0})
			case 1:
				bad = append(bad, seg{r.Intn(F + 1), 1 + r.Intn(F+5)})
			case 2:
				bad = append(bad, seg{F + r.Intn(5), 1 + r.Intn(10)})
			case 3:
				bad = append(bad, seg{4294967290, 3 + r.Intn(10)})
			}
			// the record is a map: keep offsets distinct
			seen := map[int]bool{}
			var ded []seg
			for _, s := range bad {
				if !seen[s.off] {
					seen[s.off] = true
					ded = append(ded, s)
				}
			}
			emit(fw.Case{Op: "miss", Args: []string{strconv.Itoa(F), strconv.Itoa(r.Pick([]int{cur, sumLen(ded), F, 0})), showSegs(ded)}})
		}
	}
}

// genC16Sock: the same situations driven over a socket (the `att` scenarios of C15, aimed at the completion report):
// holes of more than 64 KiB, many holes, several rounds of "0x1212 -> resend part of what was asked for -> 0x1212".
func genC16Sock(r *fw.Rng, tier string, emit func(fw.Case)) {
	n := 10
	if tier == "thorough" {
		n = 150
	}
	for i := 0; i < n; i++ {
		astype := 1 + i%5
		size := r.Pick([]int{300000, 200000, 140000, 9000, 500})
		if i%2 == 1 {
			size = 1 + r.Intn(20000)
		}
		content := r.Bytes(size)
		name := []byte(fmt.Sprintf("g%d.bin", i))
		var parts []seg
		for off := 0; off < size; {
			l := 1 + r.Intn(r.Pick([]int{50, 1500, 20000, 65536}))
			if off+l > size {
				l = size - off
			}
			parts = append(parts, seg{off, l})
			off += l
		}
		// a run of consecutive chunks is lost (one large hole), others individually
		lost := map[int]bool{}
		if len(parts) > 2 {
			a := r.Intn(len(parts))
			for k := a; k < len(parts) && k < a+1+r.Intn(6); k++ {
				lost[k] = true
			}
		}
		for k := range parts {
			if r.Chance(20) {
				lost[k] = true
			}
		}
		if len(lost) == len(parts) {
			delete(lost, 0)
		}
		events := []string{"A", "B0"}
		var missing []seg
		for k, p := range parts {
			if lost[k] {
				missing = append(missing, p)
				continue
			}
			events = append(events, fmt.Sprintf("K0:%d:%d", p.off, p.ln))
		}
		events = append(events, "E0")
		// the resends come in up to three rounds, each closed by a 0x1212
		for len(missing) > 0 {
			k := 1 + r.Intn(len(missing))
			if r.Chance(40) {
				k = len(missing)
			}
			for _, p := range missing[:k] {
				events = append(events, fmt.Sprintf("K0:%d:%d", p.off, p.ln))
			}
			missing = missing[k:]
			events = append(events, "E0")
		}
		cut := r.U64()%1000000 + 1
		if r.Chance(30) {
			cut = 0
		}
		emit(fw.Case{Op: "att", Args: []string{strconv.Itoa(astype), strconv.FormatUint(cut, 10), fw.Hex(name) + ":" + fw.Hex(content), strings.Join(events, ","), "GAPS" + strconv.Itoa(i)}})
	}
}

// several files announced by ONE 0x1210, same size and same tiling, each missing other chunks: the ranges a file covers
// must not count for its neighbours (bookkeeping shared between the files of an alarm)
func genC16Multi(r *fw.Rng, tier string, emit func(fw.Case)) {
	n := 6
	if tier == "thorough" {
		n = 60
	}
	for i := 0; i < n; i++ {
		astype := 1 + i%5
		nf := 2 + r.Intn(2)
		size := 600 + r.Intn(3000)
		var parts []seg
		for off := 0; off < size; {
			l := 100 + r.Intn(500)
			if off+l > size {
				l = size - off
			}
			parts = append(parts, seg{off, l})
			off += l
		}
		var files []string
		events := []string{"A"}
		for f := 0; f < nf; f++ {
			files = append(files, fw.Hex([]byte(fmt.Sprintf("m%d_%d.bin", i, f)))+":"+fw.Hex(r.Bytes(size)))
		}
		lostOf := make([]map[int]bool, nf)
		for f := 0; f < nf; f++ {
			lostOf[f] = map[int]bool{}
			if f > 0 || r.Chance(50) { // the first file is often complete: what it covers is what the others lack
				lostOf[f][r.Intn(len(parts))] = true
				if r.Chance(50) {
					lostOf[f][r.Intn(len(parts))] = true
				}
			}
			events = append(events, fmt.Sprintf("B%d", f))
			for k, p := range parts {
				if !lostOf[f][k] {
					events = append(events, fmt.Sprintf("K%d:%d:%d", f, p.off, p.ln))
				}
			}
			events = append(events, fmt.Sprintf("E%d", f))
		}
		for f := 0; f < nf; f++ { // resend what each file lacked, then ask again
			if len(lostOf[f]) == 0 {
				continue
			}
			for k, p := range parts {
				if lostOf[f][k] {
					events = append(events, fmt.Sprintf("K%d:%d:%d", f, p.off, p.ln))
				}
			}
			events = append(events, fmt.Sprintf("E%d", f))
		}
		cut := r.U64()%1000000 + 1
		emit(fw.Case{Op: "att", Args: []string{strconv.Itoa(astype), strconv.FormatUint(cut, 10), strings.Join(files, ";"), strings.Join(events, ","), "MULTI" + strconv.Itoa(i)}})
	}
}

var C16 = &fw.Prop{ID: "C16",
	Gen: func(r *fw.Rng, tier string, emit func(fw.Case)) {
		genC16(r, tier, emit)
		genC16Sock(r.Fork(), tier, emit)
		genC16Multi(r.Fork(), tier, emit)
	},
	Oracle: func(c fw.Case) *fw.OracleFailure {
		if c.Op == "att" {
			if attLast.key == strings.Join(c.Args, " ") {
				return attLast.orc
			}
			execAtt(c)
			return attLast.orc
		}
		return oracleC16(c)
	},
	Exec: func(c fw.Case) string {
		if c.Op == "att" {
			return execAtt(c)
		}
		F, _ := strconv.Atoi(c.Args[0])
		cur, _ := strconv.Atoi(c.Args[1])
		segs := parseSegs(c.Args[2])
		switch c.Op {
		case "miss":
			g := implMiss(F, cur, segs)
			return fmt.Sprintf("n=%d %s", len(g), showSegs(g))
		case "rep":
			ft, _ := strconv.Atoi(c.Args[4])
			return "ok " + fw.Hex(implReport(F, cur, segs, fw.UnHex(c.Args[3]), byte(ft)))
		}
		return "bad-op"
	},
	Class: func(c fw.Case, res string) string {
		if c.Op == "att" {
			return fmt.Sprintf("att:%d-reports", strings.Count(res, "9212/"))
		}
		F, _ := strconv.Atoi(c.Args[0])
		cur, _ := strconv.Atoi(c.Args[1])
		segs := parseSegs(c.Args[2])
		if !validSegs(F, segs) || cur != sumLen(segs) {
			return c.Op + ":out-of-quantifier"
		}
		n := len(bruteMissing(min(F, 5_000_000), segs))
		switch {
		case n == 0:
			return c.Op + ":complete"
		case n == 1:
			return c.Op + ":1gap"
		case n <= 255:
			return c.Op + ":2..255gaps"
		}
		return c.Op + ":>255gaps"
	}}
