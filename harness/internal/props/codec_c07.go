package props

// C07 "Message body round trip for every message type".
//
// Op line:  rt <typeName> <ctx> <bodyHex> [<valueSpec>]
//   valueSpec = "-" | <seed> | <seed>.<variant>  (decimal). It lets the oracle
//   regenerate the in-domain Go value that bodyHex is the encoding of:
//   value = entry.gen(fw.NewRng(seed), ctx, variant). Exec ignores it.
//   "-": the body was laid out by the harness (parameter ids no struct field can carry).
// Exec:     "err" | "panic" | "ok <hex of v.Encode() after v.Parse(body)>"
//           ("ok -" when Encode gives zero bytes, "ok" alone when the type has no Encode)
//
// Helper pseudo-types (ctx "-" unless noted), Exec result "ok <hex>":
//   utils.Bcd2Dec              body = BCD bytes            -> ASCII bytes of Bcd2Dec(body)
//   utils.Time2BCD/BCD2Time    body = BCD bytes            -> Time2BCD(BCD2Time(body))
//   utils.GBK                  body = UTF-8 text           -> UTF82GBK(body)
//   utils.String2FillingBytes  body = text, ctx = n<size>  -> String2FillingBytes(text, size)

import (
	"bytes"
	"encoding/binary"
	"encoding/hex"
	"fmt"
	"strconv"
	"strings"

	"github.com/cuteLittleDevil/go-jt808/protocol/utils"
	"verif/harness/internal/fw"
)

var codecUtilNames = []string{"utils.Bcd2Dec", "utils.Time2BCD/BCD2Time", "utils.GBK", "utils.String2FillingBytes"}

func codecIsUtil(name string) bool { return strings.HasPrefix(name, "utils.") }

func codecExecUtil(name string, ctx codecCtx, in []byte) string {
	switch name {
	case "utils.Bcd2Dec":
		return "ok " + fw.Hex([]byte(utils.Bcd2Dec(in)))
	case "utils.Time2BCD/BCD2Time":
		return "ok " + fw.Hex(utils.Time2BCD(utils.BCD2Time(in)))
	case "utils.GBK":
		return "ok " + fw.Hex(utils.UTF82GBK(in))
	case "utils.String2FillingBytes":
		return "ok " + fw.Hex(utils.String2FillingBytes(string(in), ctx.n))
	}
	return "bad-op"
}

func codecExecRT(c fw.Case) string {
	if c.Op != "rt" || len(c.Args) < 3 {
		return "bad-op"
	}
	if codecIsUtil(c.Args[0]) {
		ctx, ok := codecParseCtx(c.Args[1])
		if !ok {
			return "bad-op"
		}
		in := fw.Exact(fw.UnHex(c.Args[2]))
		out := "bad-op"
		if g := codecGuard(func() { out = codecExecUtil(c.Args[0], ctx, in) }); g.panicked {
			return "panic"
		} else if g.timeout {
			return "timeout"
		}
		return out
	}
	e, ctx, ok := codecLookup(c, 3)
	if !ok {
		return "bad-op"
	}
	recv := e.mk(ctx)
	body := fw.Exact(fw.UnHex(c.Args[2]))
	res := ""
	g := codecGuard(func() {
		if recv.parse(body) != "ok" {
			res = "err"
			return
		}
		enc, has := recv.encode()
		if !has {
			res = "ok"
			return
		}
		res = "ok " + fw.Hex(enc)
	})
	if g.panicked {
		return "panic"
	}
	if g.timeout {
		return "timeout"
	}
	return res
}

// codecValueSkip: the two derived flag structs of a location are filled by Parse
// from AlarmSign/StatusSign and are never written by Encode; a generated value
// carries only the words. (Their decoding is the subject of C08, not of C07.)
func codecValueSkip(path string) bool {
	return strings.HasSuffix(path, "AlarmSignDetails") || strings.HasSuffix(path, "StatusSignDetails")
}

func codecParseSpec(s string) (seed uint64, variant int, ok bool) {
	variant = -1
	if s == "-" || s == "" {
		return 0, -1, false
	}
	parts := strings.SplitN(s, ".", 2)
	seed, err := strconv.ParseUint(parts[0], 10, 64)
	if err != nil {
		return 0, -1, false
	}
	if len(parts) == 2 {
		v, err := strconv.Atoi(parts[1])
		if err != nil {
			return 0, -1, false
		}
		variant = v
	}
	return seed, variant, true
}

// codecParamDisc classifies how the re-encoding of a parameter list differs from
// body: an item that is present with length 0 is lost ("zero-length"), an item
// with a value is lost ("id0x…"), or all items are there in another order
// ("id0x…-moved", the first item that changed place).
func codecParamDisc(body, enc []byte) string {
	type item struct {
		id uint32
		n  int
	}
	walk := func(b []byte) []item {
		var out []item
		for i := 1; i+5 <= len(b); {
			id := binary.BigEndian.Uint32(b[i:])
			n := int(b[i+4])
			if i+5+n > len(b) {
				break
			}
			out = append(out, item{id, n})
			i += 5 + n
		}
		return out
	}
	bi, ei := walk(body), walk(enc)
	have := map[uint32]bool{}
	for _, it := range ei {
		have[it.id] = true
	}
	for _, it := range bi {
		if !have[it.id] {
			if it.n == 0 {
				return "zero-length"
			}
			return fmt.Sprintf("id0x%04x", it.id)
		}
	}
	for k := range bi {
		if k < len(ei) && bi[k].id != ei[k].id {
			// the item that Encode wrote later than the body had it
			for _, it := range bi[k:] {
				pos := -1
				for q, x := range ei {
					if x.id == it.id {
						pos = q
					}
				}
				if pos > k {
					return fmt.Sprintf("id0x%04x-moved", it.id)
				}
			}
		}
	}
	return ""
}

func codecOracleRT(c fw.Case) *fw.OracleFailure {
	if c.Op != "rt" {
		return nil
	}
	if len(c.Args) >= 3 && codecIsUtil(c.Args[0]) {
		return codecOracleUtil(c)
	}
	e, ctx, ok := codecLookup(c, 3)
	if !ok || !e.hasEncode {
		return &fw.OracleFailure{Sig: "codec/bad-op", Msg: "unknown or one-way type in " + c.Op + " " + strings.Join(c.Args[:2], " ")}
	}
	body := fw.UnHex(c.Args[2])
	where := fmt.Sprintf("%s ctx=%s body=%s", e.name, ctx.s, trunc(fw.Hex(body), 200))
	fail := func(class, disc, msg string) *fw.OracleFailure {
		sig := e.name + "/" + class
		if disc != "" {
			sig += "/" + disc
		}
		return &fw.OracleFailure{Sig: sig, Msg: msg + "; " + where}
	}

	// 1. the encoded body parses into a fresh receiver
	v1 := e.mk(ctx)
	cls := ""
	g := codecGuard(func() { cls = v1.parse(fw.Exact(body)) })
	if g.timeout {
		return fail("encode-not-parseable", "timeout", "Parse does not return")
	}
	if g.panicked {
		return fail("encode-not-parseable", "panic", fmt.Sprintf("Parse of an encoded in-domain value panics: %q in %s", g.what, g.site))
	}
	if cls != "ok" {
		return fail("encode-not-parseable", "", "Parse rejects the encoding of an in-domain value")
	}
	// 2. re-encoding gives the same bytes
	var e1 []byte
	g = codecGuard(func() { e1, _ = v1.encode() })
	if g.panicked || g.timeout {
		return fail("reencode-differs", "panic", fmt.Sprintf("Encode of the parsed value panics/hangs: %q in %s", g.what, g.site))
	}
	if !bytes.Equal(e1, body) {
		disc := ""
		if e.name == "P0x8103" {
			disc = codecParamDisc(body, e1)
		}
		return fail("reencode-differs", disc, "Encode(Parse(body)) = "+trunc(fw.Hex(e1), 200)+" differs from body")
	}
	// 3. parsing the re-encoding gives the same value
	v2 := e.mk(ctx)
	g = codecGuard(func() { cls = v2.parse(fw.Exact(e1)) })
	if g.panicked || g.timeout || cls != "ok" {
		return fail("reparse-differs", "", "Parse(Encode(v1)) fails")
	}
	if d := codecDiffVals(v1.vals(), v2.vals()); d != "" {
		return fail("reparse-differs", "", "Parse(Encode(v1)) differs from v1 at "+d)
	}
	// 4. the parsed value is the generated one
	if len(c.Args) >= 4 && e.gen != nil {
		if seed, variant, ok := codecParseSpec(c.Args[3]); ok {
			want := e.gen(fw.NewRng(seed), ctx, variant)
			wr := &codecBodyRecv{v: want, ver: ctx.ver}
			var wb []byte
			g = codecGuard(func() { wb, _ = wr.encode() })
			if g.panicked || g.timeout || !bytes.Equal(wb, body) {
				// the op line does not stem from this generator/library version (replay of an
				// older ops file after Encode changed): the value part cannot be judged
				return nil
			}
			if d := codecDiff(v1.vals()[0], want, &codecDiffOpt{skip: codecValueSkip}); d != "" {
				return fail("value-differs", codecValueField(d), "parsed (left) vs generated (right) value differ at "+d)
			}
		}
	}
	return nil
}

// codecValueField names the struct field a value difference sits in; for the
// parameter list (one field of P0x8103 holding ~90 parameters) the parameter field.
func codecValueField(d string) string {
	top := codecTopField(d)
	if top == "TerminalParamDetails" && strings.HasPrefix(d, top+".") {
		return codecTopField(d[len(top)+1:])
	}
	return top
}

func codecAllDecimal(b []byte) bool {
	for _, x := range b {
		if x>>4 > 9 || x&0x0f > 9 {
			return false
		}
	}
	return true
}

func codecOracleUtil(c fw.Case) *fw.OracleFailure {
	name := c.Args[0]
	ctx, ok := codecParseCtx(c.Args[1])
	if !ok {
		return &fw.OracleFailure{Sig: "codec/bad-op", Msg: "bad context " + c.Args[1]}
	}
	in := fw.UnHex(c.Args[2])
	var f *fw.OracleFailure
	g := codecGuard(func() {
		switch name {
		case "utils.Bcd2Dec":
			// phone numbers: the digits of the BCD bytes without leading zeros; padding the
			// result back to 2*len digits and packing it gives the original bytes
			s := utils.Bcd2Dec(fw.Exact(in))
			if len(s) > 2*len(in) {
				f = &fw.OracleFailure{Sig: name + "/roundtrip", Msg: fmt.Sprintf("%x -> %q is longer than the input has digits", in, s)}
				return
			}
			back, err := hex.DecodeString(strings.Repeat("0", 2*len(in)-len(s)) + s)
			if err != nil || !bytes.Equal(back, in) {
				f = &fw.OracleFailure{Sig: name + "/roundtrip", Msg: fmt.Sprintf("%x -> %q does not convert back", in, s)}
				return
			}
			if len(s) > 1 && s[0] == '0' && strings.Trim(s, "0") != "" {
				f = &fw.OracleFailure{Sig: name + "/leading-zero", Msg: fmt.Sprintf("%x -> %q keeps a leading zero", in, s)}
			}
		case "utils.Time2BCD/BCD2Time":
			if !codecAllDecimal(in) {
				return // not a BCD timestamp
			}
			s := utils.BCD2Time(fw.Exact(in))
			if back := utils.Time2BCD(s); !bytes.Equal(back, in) {
				f = &fw.OracleFailure{Sig: name + "/roundtrip", Msg: fmt.Sprintf("%x -> %q -> %x", in, s, back)}
				return
			}
			if len(in) == 6 {
				want := fmt.Sprintf("20%02x-%02x-%02x %02x:%02x:%02x", in[0], in[1], in[2], in[3], in[4], in[5])
				if s != want {
					f = &fw.OracleFailure{Sig: name + "/format", Msg: fmt.Sprintf("%x -> %q, expected %q", in, s, want)}
				}
			}
		case "utils.GBK":
			gbk := utils.UTF82GBK(fw.Exact(in))
			if back := utils.GBK2UTF8(gbk); !bytes.Equal(back, in) {
				f = &fw.OracleFailure{Sig: name + "/roundtrip", Msg: fmt.Sprintf("utf8 %x -> gbk %x -> utf8 %x", in, gbk, back)}
				return
			}
			// what a helper returned belongs to the caller: converting another text afterwards must not change it
			// (an encoder that holds the bytes across a second conversion would put the other text into its body)
			held := utils.UTF82GBK(fw.Exact(in))
			snap := append([]byte{}, held...)
			other := append([]byte("\xe5\x8c\x97\xe6\x96\x97-"), in...)
			_ = utils.UTF82GBK(other)
			_ = utils.GBK2UTF8(utils.UTF82GBK(other))
			if !bytes.Equal(held, snap) {
				f = &fw.OracleFailure{Sig: name + "/result-not-stable", Msg: fmt.Sprintf("gbk %x of utf8 %x became %x after another text was converted", snap, in, held)}
				return
			}
			heldU := utils.GBK2UTF8(snap)
			snapU := append([]byte{}, heldU...)
			_ = utils.GBK2UTF8(utils.UTF82GBK(other))
			if !bytes.Equal(heldU, snapU) {
				f = &fw.OracleFailure{Sig: name + "/result-not-stable", Msg: fmt.Sprintf("utf8 %x became %x after another text was converted", snapU, heldU)}
			}
		case "utils.String2FillingBytes":
			if len(in) > ctx.n || bytes.IndexByte(in, 0) >= 0 {
				return // out of domain: longer than the field / contains NUL
			}
			out := utils.String2FillingBytes(string(in), ctx.n)
			if len(out) != ctx.n || !bytes.Equal(bytes.TrimRight(out, "\x00"), in) {
				f = &fw.OracleFailure{Sig: name + "/roundtrip", Msg: fmt.Sprintf("%q padded to %d gives %x", in, ctx.n, out)}
			}
		default:
			f = &fw.OracleFailure{Sig: "codec/bad-op", Msg: "unknown helper " + name}
		}
	})
	if g.panicked {
		return &fw.OracleFailure{Sig: name + "/panic", Msg: fmt.Sprintf("%q on input %x", g.what, in)}
	}
	if g.timeout {
		return &fw.OracleFailure{Sig: name + "/timeout", Msg: fmt.Sprintf("input %x", in)}
	}
	return f
}

// ---------------------------------------------------------------------------
// generator

func codecEmitValue(emit func(fw.Case), e *codecEntry, ctx codecCtx, seed uint64, variant int) {
	v := e.gen(fw.NewRng(seed), ctx, variant)
	body, _ := (&codecBodyRecv{v: v, ver: ctx.ver}).encode()
	spec := strconv.FormatUint(seed, 10)
	if variant >= 0 {
		spec += "." + strconv.Itoa(variant)
	}
	emit(fw.Case{Op: "rt", Args: []string{e.name, ctx.s, fw.Hex(body), spec}})
}

func codecGenC07(r *fw.Rng, tier string, emit func(fw.Case)) {
	mul := 1
	if tier == "thorough" {
		mul = 20
	}
	for _, e := range codecRegistry {
		if !e.twoWay || e.gen == nil {
			continue
		}
		for ci, cs := range e.ctxs {
			ctx, _ := codecParseCtx(cs)
			rr := r.Fork()
			n := 150 * mul
			if ci >= e.lightFrom { // C07 gives every dialect the same budget: the layouts differ
				n = 40 * mul
			}
			if e.name == "T0x0002" || e.name == "P0x8104" || e.name == "P0x9003" {
				n = 1 // empty bodies
			}
			for i := 0; i < n; i++ {
				codecEmitValue(emit, e, ctx, rr.U64()>>1, -1)
			}
			if e.variants != nil {
				reps := 1
				if e.name == "P0x8103" {
					reps = 3
				}
				for _, v := range e.variants(tier) {
					for k := 0; k < reps*mul; k++ {
						codecEmitValue(emit, e, ctx, rr.U64()>>1, v)
					}
				}
			}
		}
	}
	// parameter items no generated struct value carries, laid out by the harness: the ids
	// parseParam accepts without having a field (0x02a, 0x02b), fields that reflection
	// cannot set (none in the tree at the time of writing) and string parameters that are
	// present with length 0. One item per message, so the order Encode writes items in
	// does not matter.
	rr := r.Fork()
	for k := 0; k < 3*mul; k++ {
		for _, v := range codecVers {
			one := func(id uint32, val []byte) {
				emit(fw.Case{Op: "rt", Args: []string{"P0x8103", v, fw.Hex(append([]byte{1}, codecParamTLV(id, val)...)), "-"}})
			}
			for _, id := range codecParamExtraIDs {
				one(id, rr.Bytes(4))
			}
			for _, p := range codecParamFields {
				if !p.exported {
					one(p.id, rr.Bytes(p.naturalLen()))
				}
				if k == 0 && p.kind.String() == "string" {
					one(p.id, nil) // a string parameter that is present and empty
				}
			}
		}
	}
	codecGenUtils(r.Fork(), mul, emit)
}

func codecGenUtils(r *fw.Rng, mul int, emit func(fw.Case)) {
	rt := func(name, ctx string, in []byte) {
		emit(fw.Case{Op: "rt", Args: []string{name, ctx, fw.Hex(in), "-"}})
	}
	for i := 0; i < 600*mul; i++ {
		// phones: 6 and 10 byte BCD, many leading zeros; some arbitrary byte strings
		n := r.Pick([]int{6, 6, 10, 10, 1, 2, 0, 7})
		b := codecBCDPhone(r, n)
		for j := 0; j < len(b) && r.Chance(60); j++ {
			b[j] = 0
			if r.Chance(30) {
				b[j] = byte(r.Intn(10))
				break
			}
		}
		if r.Chance(10) {
			b = r.Bytes(n)
		}
		rt("utils.Bcd2Dec", "-", b)
	}
	for i := 0; i < 600*mul; i++ {
		n := 6
		if r.Chance(15) {
			n = r.Intn(9)
		}
		rt("utils.Time2BCD/BCD2Time", "-", codecBCDPhone(r, n))
	}
	for i := 0; i < 600*mul; i++ {
		rt("utils.GBK", "-", []byte(codecGBKText(r, 0, 40)))
	}
	for i := 0; i < 600*mul; i++ {
		size := r.Pick([]int{0, 1, 5, 7, 8, 11, 20, 30, 32})
		s := codecRawStr(r, size)
		if r.Chance(20) {
			s = codecRawStrN(r, size)
		}
		rt("utils.String2FillingBytes", fmt.Sprintf("n%d", size), []byte(s))
	}
}

func codecClassRT(c fw.Case, res string) string {
	if len(c.Args) < 3 {
		return "bad"
	}
	return c.Args[0] + ":" + strings.SplitN(res, " ", 2)[0]
}

// C07: message body round trip for every message type.
var C07 = &fw.Prop{ID: "C07", Gen: codecGenC07, Exec: codecExecRT, Oracle: codecOracleRT, Class: codecClassRT}
