package props

import (
	"encoding/hex"
	"fmt"
	"os"
	"path/filepath"
	"strconv"
	"strings"
	"sync"
	"time"

	"github.com/cuteLittleDevil/go-jt808/protocol/jt808"
	"verif/harness/internal/frames"
	"verif/harness/internal/fw"
	"verif/harness/internal/sock"
)

// C10: hostile input is contained to its own connection (both servers).
//
//	astream <astype> <cutseed> <streamhex>
//	    the stream is written (in random pieces) to the real attachment server, then the client closes; result: the
//	    stages the server's file handler saw, in order, with "+" when a current package was set, and how the session
//	    ended: "stages=[init,start,stream-data+,...] end=ok|fail". The Lean model JT.AttStream.run predicts the same.
//	hostile <server jt808|jt808pa|attach> <astype> <closemode> <cutseed> <streamhex>
//	    a witness session is established first; the hostile client then sends the stream and ends as <closemode>
//	    (close | reset | half | hang); afterwards the witness must still be served correctly, a new connection must be
//	    accepted and served, and the server process must be alive: "contained". The model side evaluates the models
//	    of the reached code for a panic outcome.

var (
	c10Mu   sync.Mutex
	c10Srvs = map[string]*sock.Server{}
	c10Dirs = map[string]string{}
)

func c10Server(kind string, astype int) (*sock.Server, error) {
	c10Mu.Lock()
	defer c10Mu.Unlock()
	key := kind + "/" + strconv.Itoa(astype)
	if s := c10Srvs[key]; s != nil && s.Alive() {
		return s, nil
	}
	if s := c10Srvs[key]; s != nil {
		s.Stop()
	}
	var args []string
	switch kind {
	case "jt808":
		args = []string{"-mode", "jt808"}
	case "jt808pa":
		args = []string{"-mode", "jt808", "-parse-all"}
	case "attach":
		dir := c10Dirs[key]
		if dir == "" {
			d, err := os.MkdirTemp("/var/tmp", "verif-c10-")
			if err != nil {
				return nil, err
			}
			dir = d
			c10Dirs[key] = dir
		}
		args = []string{"-mode", "attach", "-astype", strconv.Itoa(astype), "-cwd", dir}
	}
	s, err := sock.StartServer(sysdBin(), args...)
	if err != nil {
		return nil, err
	}
	c10Srvs[key] = s
	return s, nil
}

func c10StopAll() {
	c10Mu.Lock()
	defer c10Mu.Unlock()
	for k, s := range c10Srvs {
		s.Stop()
		delete(c10Srvs, k)
	}
	for k, d := range c10Dirs {
		os.RemoveAll(d)
		delete(c10Dirs, k)
	}
}

func cutStream(stream []byte, seed uint64) [][]byte {
	if seed == 0 || len(stream) == 0 {
		return [][]byte{stream}
	}
	r := fw.NewRng(seed)
	var chunks [][]byte
	s := stream
	for len(s) > 0 {
		n := 1 + r.Intn([]int{3, 40, 400, 5000}[r.Intn(4)])
		if n > len(s) {
			n = len(s)
		}
		chunks = append(chunks, s[:n])
		s = s[n:]
	}
	return chunks
}

// ---- astream ------------------------------------------------------------------------------------------------------

func execAstream(c fw.Case) (string, *fw.OracleFailure) {
	astype, _ := strconv.Atoi(c.Args[0])
	seed, _ := strconv.ParseUint(c.Args[1], 10, 64)
	stream := fw.UnHex(c.Args[2])
	var explicit []int // "c:<pos>.<pos>…" = cut exactly there
	if strings.HasPrefix(c.Args[1], "c:") {
		for _, p := range strings.Split(c.Args[1][2:], ".") {
			if v, err := strconv.Atoi(p); err == nil {
				explicit = append(explicit, v)
			}
		}
	}
	srv, err := c10Server("attach", astype)
	if err != nil {
		return "server-start-failed", &fw.OracleFailure{Sig: "server/start", Msg: err.Error()}
	}
	mark := srv.Len()
	cl, err := sock.Dial(srv.Addr())
	if err != nil {
		return "scenario-failed", &fw.OracleFailure{Sig: "server/refuses-connection", Msg: err.Error()}
	}
	chunks := cutStream(stream, seed)
	pause := time.Duration(0)
	if len(chunks) < 40 {
		pause = 300 * time.Microsecond
	}
	if explicit != nil {
		chunks = nil
		prev := 0
		for _, p := range explicit {
			if p > prev && p < len(stream) {
				chunks = append(chunks, stream[prev:p])
				prev = p
			}
		}
		chunks = append(chunks, stream[prev:])
		pause = 3 * time.Millisecond // the server must really see the pieces as separate reads
	}
	_ = cl.SendChunks(chunks, pause)
	_ = cl.CloseWrite()
	// the client keeps its read side open until the server has finished with the connection (on a loaded machine the
	// server may still be working through the buffered bytes 150 ms after the last write: closing then makes one of its
	// replies fail and ends the connection early — a timing of the harness, not of the code under test)
	cl.ReadAvailable(150 * time.Millisecond)
	quit, next, ok := srv.WaitForFrom(mark, func(e sock.Event) bool {
		return sock.Str(e, "event") == "file-saved" && !sock.Bool(e, "probe")
	}, 4*time.Second)
	cl.Close()
	_ = quit
	if !srv.Ping(2 * time.Second) {
		time.Sleep(20 * time.Millisecond)
		_, code, tail := srv.ExitInfo()
		return "died", &fw.OracleFailure{Sig: "attach-server/died", Msg: fmt.Sprintf("attachment server exited with code %d: %s", code, lastLines(tail, 8))}
	}
	if !ok {
		return "no-quit", &fw.OracleFailure{Sig: "attach/no-quit", Msg: "the connection handler did not finish within 4 s after the client closed"}
	}
	var stages []string
	end := "ok"
	for _, e := range srv.Snapshot()[mark:next] {
		if sock.Str(e, "event") != "file-event" || sock.Bool(e, "probe") {
			continue
		}
		st := sock.Str(e, "stageName")
		switch st {
		case "success-quit":
			continue
		case "fail-quit":
			end = "fail"
			continue
		}
		if sock.Str(e, "current") != "" {
			st += "+"
		}
		stages = append(stages, st)
	}
	return "stages=[" + strings.Join(stages, ",") + "] end=" + end, nil
}

// ---- hostile --------------------------------------------------------------------------------------------------------

var c10PhoneN int

func c10Phone() []byte {
	c10PhoneN++
	n := c10PhoneN
	b := []byte{0x02, 0x66, 0, 0, 0, 0}
	for i := 5; i >= 2; i-- {
		b[i] = byte(n%10) | byte(n/10%10)<<4
		n /= 100
	}
	return b
}

type witness struct {
	kind   string
	astype int
	cl     *sock.Client
	phone  []byte
	serial uint16
	file   attFile
	sent   int
}

func hbFrame(phone []byte, serial uint16) []byte {
	return frames.Build(frames.H{ID: 0x0002, Phone: phone, Serial: serial}, nil)
}

func replyOK(f []byte, wantID uint16, ackSerial uint16, ackID uint16) bool {
	m := jt808.NewJTMessage()
	if err := m.Decode(f); err != nil {
		return false
	}
	if m.Header.ID != wantID {
		return false
	}
	if wantID == 0x8001 {
		b := m.Body
		return len(b) == 5 && uint16(b[0])<<8|uint16(b[1]) == ackSerial && uint16(b[2])<<8|uint16(b[3]) == ackID && b[4] == 0
	}
	return true
}

func startWitness(srv *sock.Server, kind string, astype int) (*witness, string) {
	cl, err := sock.Dial(srv.Addr())
	if err != nil {
		return nil, "witness-dial:" + err.Error()
	}
	w := &witness{kind: kind, astype: astype, cl: cl, phone: c10Phone(), serial: 1}
	if kind == "attach" {
		r := fw.NewRng(uint64(c10PhoneN))
		w.file = attFile{[]byte(fmt.Sprintf("w%d.bin", c10PhoneN)), r.Bytes(600)}
		var s []byte
		s = append(s, frames.Build(frames.H{ID: 0x1210, Phone: w.phone, Serial: 1}, att1210(astype, []attFile{w.file}, "WIT", r))...)
		s = append(s, frames.Build(frames.H{ID: 0x1211, Phone: w.phone, Serial: 2}, att1211(w.file, 0))...)
		s = append(s, attChunk(astype, w.file, 0, 300)...)
		_ = cl.Send(s)
		fs := cl.ReadFrames(2, 2*time.Second)
		if len(fs) != 2 || !replyOK(fs[0], 0x8001, 1, 0x1210) || !replyOK(fs[1], 0x8001, 2, 0x1211) {
			return w, fmt.Sprintf("witness-setup: %d replies", len(fs))
		}
		return w, ""
	}
	_ = cl.Send(hbFrame(w.phone, w.serial))
	fs := cl.ReadFrames(1, 2*time.Second)
	if len(fs) != 1 || !replyOK(fs[0], 0x8001, w.serial, 0x0002) {
		return w, fmt.Sprintf("witness-setup: %d replies", len(fs))
	}
	w.serial++
	return w, ""
}

// check: the established session is still served correctly
func (w *witness) check() string {
	if w.kind == "attach" {
		var s []byte
		s = append(s, attChunk(w.astype, w.file, 300, 300)...)
		s = append(s, frames.Build(frames.H{ID: 0x1212, Phone: w.phone, Serial: 3}, att1211(w.file, 0))...)
		_ = w.cl.Send(s)
		fs := w.cl.ReadFrames(1, 2*time.Second)
		if len(fs) != 1 {
			return fmt.Sprintf("witness got %d replies to its 0x1212", len(fs))
		}
		_, body, ok := frames.Parse(fs[0])
		l := len(w.file.name)
		if !ok || len(body) < 4+l || body[2+l] != 0 {
			return "witness upload not reported complete: " + hex.EncodeToString(fs[0])
		}
		return ""
	}
	_ = w.cl.Send(hbFrame(w.phone, w.serial))
	fs := w.cl.ReadFrames(1, 2*time.Second)
	if len(fs) != 1 || !replyOK(fs[0], 0x8001, w.serial, 0x0002) {
		return fmt.Sprintf("witness heartbeat %d: %d replies", w.serial, len(fs))
	}
	w.serial++
	return ""
}

func execHostile(c fw.Case) (string, *fw.OracleFailure) {
	kind := c.Args[0]
	astype, _ := strconv.Atoi(c.Args[1])
	closeMode := c.Args[2]
	seed, _ := strconv.ParseUint(c.Args[3], 10, 64)
	stream := fw.UnHex(c.Args[4])
	srv, err := c10Server(kind, astype)
	if err != nil {
		return "server-start-failed", &fw.OracleFailure{Sig: "server/start", Msg: err.Error()}
	}
	fail := func(sig, msg string) (string, *fw.OracleFailure) {
		if !srv.Ping(500 * time.Millisecond) {
			time.Sleep(20 * time.Millisecond)
			_, code, tail := srv.ExitInfo()
			sig, msg = kind+"-server/died", fmt.Sprintf("server exited with code %d: %s", code, lastLines(tail, 8))
		}
		return "not-contained:" + sig, &fw.OracleFailure{Sig: sig, Msg: msg}
	}
	w, werr := startWitness(srv, kind, astype)
	if werr != "" {
		return fail(kind+"/witness-setup", werr)
	}
	defer w.cl.Close()
	cl, err := sock.Dial(srv.Addr())
	if err != nil {
		return fail(kind+"/refuses-connection", err.Error())
	}
	if len(stream) > 0 {
		chunks := cutStream(stream, seed)
		pause := time.Duration(0)
		if len(chunks) < 40 {
			pause = 200 * time.Microsecond
		}
		_ = cl.SendChunks(chunks, pause)
	}
	switch closeMode {
	case "close":
		cl.Close()
	case "reset":
		cl.Reset()
	case "half":
		_ = cl.CloseWrite()
		cl.ReadAvailable(60 * time.Millisecond)
		cl.Close()
	case "hang": // stays open while the others are served
		defer cl.Close()
	}
	time.Sleep(3 * time.Millisecond)
	if m := w.check(); m != "" {
		return fail(kind+"/witness-disturbed", m)
	}
	// a new connection is accepted and served
	w2, werr := startWitness(srv, kind, astype)
	if w2 != nil {
		defer w2.cl.Close()
	}
	if werr != "" {
		return fail(kind+"/new-connection-not-served", werr)
	}
	if m := w2.check(); m != "" {
		return fail(kind+"/new-connection-not-served", m)
	}
	if !srv.Ping(2 * time.Second) {
		return fail(kind+"-server/died", "")
	}
	return "contained", nil
}

// ---- generators -------------------------------------------------------------------------------------------------------

func attValidSession(astype int, r *fw.Rng) (stream []byte, pieces [][]byte) {
	nf := 1 + r.Intn(2)
	var files []attFile
	for k := 0; k < nf; k++ {
		files = append(files, attFile{[]byte(fmt.Sprintf("h%d_%d.jpg", r.Intn(1000), k)), r.Bytes(1 + r.Intn(900))})
	}
	phone := c10Phone()
	serial := uint16(1)
	add := func(b []byte) {
		pieces = append(pieces, b)
		stream = append(stream, b...)
	}
	fr := func(id uint16, body []byte) {
		add(frames.Build(frames.H{ID: id, Phone: phone, Serial: serial}, body))
		serial++
	}
	fr(0x1210, att1210(astype, files, "AL"+strconv.Itoa(r.Intn(100)), r))
	for k, f := range files {
		fr(0x1211, att1211(f, byte(k)))
		off := 0
		for off < len(f.content) {
			l := 1 + r.Intn(400)
			if off+l > len(f.content) {
				l = len(f.content) - off
			}
			add(attChunk(astype, f, off, l))
			off += l
		}
		fr(0x1212, att1211(f, byte(k)))
	}
	return
}

// mutate: byte flips, truncation, duplication, splice of pieces, length-field attacks
func mutateStream(r *fw.Rng, stream []byte, pieces [][]byte) []byte {
	out := append([]byte{}, stream...)
	switch r.Intn(8) {
	case 0: // flip a few bytes
		for k := 0; k < 1+r.Intn(4) && len(out) > 0; k++ {
			out[r.Intn(len(out))] ^= byte(1 << r.Intn(8))
		}
	case 1: // truncate
		if len(out) > 0 {
			out = out[:r.Intn(len(out))]
		}
	case 2: // drop a piece
		if len(pieces) > 1 {
			k := r.Intn(len(pieces))
			out = nil
			for i, p := range pieces {
				if i != k {
					out = append(out, p...)
				}
			}
		}
	case 3: // reorder pieces
		idx := make([]int, len(pieces))
		for i := range idx {
			idx[i] = i
		}
		for i := len(idx) - 1; i > 0; i-- {
			j := r.Intn(i + 1)
			idx[i], idx[j] = idx[j], idx[i]
		}
		out = nil
		for _, i := range idx {
			out = append(out, pieces[i]...)
		}
	case 4: // overwrite a 4-byte field somewhere with an extreme value
		if len(out) >= 4 {
			p := r.Intn(len(out) - 3)
			copy(out[p:], [][]byte{{0xff, 0xff, 0xff, 0xff}, {0, 0, 0, 0}, {0x7f, 0xff, 0xff, 0xff}, {0x80, 0, 0, 0}}[r.Intn(4)])
		}
	case 5: // insert garbage
		p := r.Intn(len(out) + 1)
		g := r.Bytes(1 + r.Intn(30))
		out = append(out[:p:p], append(g, out[p:]...)...)
	case 6: // duplicate a piece
		if len(pieces) > 0 {
			k := r.Intn(len(pieces))
			out = nil
			for i, p := range pieces {
				out = append(out, p...)
				if i == k {
					out = append(out, p...)
				}
			}
		}
	default: // set a single byte to a special value
		if len(out) > 0 {
			out[r.Intn(len(out))] = []byte{0x00, 0xff, 0x7e, 0x7d, 0x30}[r.Intn(5)]
		}
	}
	return out
}

// hand-made adversarial attachment streams
func attAdversarial(astype int, r *fw.Rng) [][]byte {
	phone := c10Phone()
	fr := func(id uint16, serial uint16, body []byte) []byte {
		return frames.Build(frames.H{ID: id, Phone: phone, Serial: serial}, body)
	}
	f := attFile{[]byte("adv.bin"), r.Bytes(200)}
	a := fr(0x1210, 1, att1210(astype, []attFile{f}, "ADV", r))
	b := fr(0x1211, 2, att1211(f, 0))
	e := fr(0x1212, 3, att1211(f, 0))
	hdr := func(name []byte, off, ln uint32, data []byte) []byte {
		h := []byte{0x30, 0x31, 0x63, 0x64}
		if astype == 2 {
			h = append(h, byte(len(name)))
			h = append(h, name...)
		} else {
			n := make([]byte, 50)
			copy(n, name)
			h = append(h, n...)
		}
		h = append(h, byte(off>>24), byte(off>>16), byte(off>>8), byte(off), byte(ln>>24), byte(ln>>16), byte(ln>>8), byte(ln))
		return append(h, data...)
	}
	cat := func(ps ...[]byte) []byte {
		var o []byte
		for _, p := range ps {
			o = append(o, p...)
		}
		return o
	}
	long := make([]byte, 255)
	for i := range long {
		long[i] = 'n'
	}
	fl := attFile{long, r.Bytes(10)}
	return [][]byte{
		{},                             // connect and close
		{0x7e},                         // lone delimiter
		{0x30, 0x31, 0x63, 0x64},       // marker only
		hdr(f.name, 0, 200, f.content), // chunk before any announcement
		cat(e),                         // 0x1212 before anything
		cat(a, e),                      // 0x1212 before any chunk
		cat(a, b, e, e),                // twice
		cat(a, b, hdr(f.name, 0, 0xffffffff, f.content)), // impossible length
		cat(a, b, hdr(f.name, 0xffffffff, 200, f.content), e),
		cat(a, b, hdr(f.name, 0, 0, nil), e),                      // empty chunk
		cat(a, b, hdr([]byte("other"), 0, 10, f.content[:10]), e), // unknown file
		cat(a, b, hdr(f.name, 100, 200, f.content), e),            // beyond the announced size
		cat(a, b, hdr(f.name, 0, 200, f.content), hdr(f.name, 0, 200, f.content), hdr(f.name, 0, 100, f.content[:100]), e),
		cat(fr(0x1210, 1, att1210(astype, []attFile{fl}, "L", r)), fr(0x1211, 2, att1211(fl, 0)), fr(0x1212, 3, att1211(fl, 0))),
		cat(fr(0x1210, 1, nil)), cat(fr(0x1210, 1, r.Bytes(20))), cat(fr(0x1211, 1, nil)), cat(fr(0x1212, 1, []byte{0xff})),
		cat(fr(0x1210, 1, att1210(astype, nil, "Z", r))),                                         // no files
		cat(fr(0x0002, 1, nil)), cat(fr(0x0200, 1, r.Bytes(28))), cat(fr(0x8001, 1, r.Bytes(5))), // foreign ids
		cat(a, a, b, hdr(f.name, 0, 200, f.content), e), // announced twice
		cat(a, b, hdr(f.name, 0, 200, f.content), a, e), // re-announced after completion
		cat(a, b, hdr(f.name, 0, 100, f.content[:100])), // ends mid-file
		cat(a, b, hdr(f.name, 0, 200, f.content)[:40]),  // ends mid-header
		cat(a[:len(a)/2]), // ends mid-frame
		cat(hdr(nil, 0, 0, nil)),
		cat(a, b, []byte{0x30, 0x31, 0x63, 0x64, 0xff}), // HLJ: name length 255, nothing more
	}
}

func jtAdversarial(r *fw.Rng, ids []int) [][]byte {
	phone := c10Phone()
	var out [][]byte
	out = append(out, []byte{}, []byte{0x7e}, []byte{0x7e, 0x7e}, []byte{0x7e, 0x7e, 0x7e, 0x7e}, []byte{0x7d}, r.Bytes(300))
	// fragment attacks: package number 0, beyond the total, total 0 with the fragment bit, huge totals
	for _, pk := range [][2]int{{1, 0}, {3, 0}, {3, 4}, {3, 65535}, {0, 0}, {0, 1}, {65535, 1}, {65535, 65535}, {1, 1}, {2, 2}} {
		out = append(out, frames.Build(frames.H{ID: 0x0200, Phone: phone, Serial: 1, Frag: true, Sum: uint16(pk[0]), No: uint16(pk[1])}, r.Bytes(30)))
	}
	// every supported id with empty, short, random bodies
	for _, id := range ids {
		for _, l := range []int{0, 1, 2, 5, 27, 28, 29, 60, 300, 1023} {
			out = append(out, frames.Build(frames.H{ID: uint16(id), Phone: phone, Serial: uint16(l)}, r.Bytes(l)))
		}
	}
	// 2019 layout, encrypted bit, unknown ids
	out = append(out, frames.Build(frames.H{ID: 0x0002, Phone: append(make([]byte, 4), phone...), Serial: 1, V2019: true}, nil))
	out = append(out, frames.Build(frames.H{ID: 0xfff0, Phone: phone, Serial: 1}, r.Bytes(10)))
	out = append(out, frames.Build(frames.H{ID: 0x0000, Phone: phone, Serial: 1}, nil))
	return out
}

func genC10(r *fw.Rng, tier string, emit func(fw.Case)) {
	hx := fw.Hex
	closeModes := []string{"close", "reset", "half", "hang"}
	// ---- attachment: model correspondence (astream) + containment (hostile)
	nValid, nMut := 3, 10
	if tier == "thorough" {
		nValid, nMut = 20, 120
	}
	for astype := 1; astype <= 5; astype++ {
		for i, s := range attAdversarial(astype, r) {
			emit(fw.Case{Op: "astream", Args: []string{strconv.Itoa(astype), strconv.FormatUint(uint64(i%3)*uint64(r.Intn(100000)+1), 10), hx(s)}})
		}
		for i := 0; i < nValid; i++ {
			s, pieces := attValidSession(astype, r)
			emit(fw.Case{Op: "astream", Args: []string{strconv.Itoa(astype), strconv.Itoa(r.Intn(100000) + 1), hx(s)}})
			for k := 0; k < nMut/nValid+1; k++ {
				emit(fw.Case{Op: "astream", Args: []string{strconv.Itoa(astype), strconv.Itoa(r.Intn(100000)), hx(mutateStream(r, s, pieces))}})
			}
			// every close point of the valid session (prefixes at piece boundaries and inside pieces)
			cut := r.Intn(len(s) + 1)
			emit(fw.Case{Op: "astream", Args: []string{strconv.Itoa(astype), "0", hx(s[:cut])}})
		}
	}
	for astype := 1; astype <= 5; astype++ {
		adv := attAdversarial(astype, r)
		for i, s := range adv {
			if tier != "thorough" && i%5 != astype%5 && i > 6 {
				continue
			}
			emit(fw.Case{Op: "hostile", Args: []string{"attach", strconv.Itoa(astype), closeModes[(i+astype)%4], strconv.Itoa(r.Intn(1000)), hx(s)}})
		}
		for i := 0; i < nValid; i++ {
			s, pieces := attValidSession(astype, r)
			emit(fw.Case{Op: "hostile", Args: []string{"attach", strconv.Itoa(astype), closeModes[r.Intn(4)], strconv.Itoa(r.Intn(1000)), hx(mutateStream(r, s, pieces))}})
			emit(fw.Case{Op: "hostile", Args: []string{"attach", strconv.Itoa(astype), closeModes[r.Intn(3)], "0", hx(s[:r.Intn(len(s)+1)])}})
		}
	}
	// ---- jt808 server, default handlers and parse-all handlers
	ids := []int{0x0001, 0x0002, 0x0100, 0x0102, 0x0104, 0x0200, 0x0704, 0x0800, 0x0801, 0x0805, 0x1003, 0x1005, 0x1205, 0x1206, 0x1210, 0x1211, 0x1212, 0x8001, 0x8100, 0x8103, 0x0003, 0x0107, 0x0108, 0x0201, 0x0302, 0x0500, 0x0608, 0x0700, 0x0701, 0x0702, 0x0705, 0x0802, 0x0900, 0x0901, 0x0a00}
	for _, kind := range []string{"jt808", "jt808pa"} {
		adv := jtAdversarial(r, ids)
		for i, s := range adv {
			if tier != "thorough" && i > 20 && i%4 != 0 {
				continue
			}
			emit(fw.Case{Op: "hostile", Args: []string{kind, "0", closeModes[i%4], strconv.Itoa(r.Intn(1000)), hx(s)}})
		}
		n := 25
		if tier == "thorough" {
			n = 400
		}
		for i := 0; i < n; i++ {
			// a valid conversation (C06 generator), mutated
			var s []byte
			var pieces [][]byte
			phone := c10Phone()
			for k := 0; k < 1+r.Intn(5); k++ {
				id := ids[r.Intn(len(ids))]
				body := r.Bytes([]int{0, 5, 28, 40, 100}[r.Intn(5)])
				h := frames.H{ID: uint16(id), Phone: phone, Serial: uint16(k + 1)}
				if r.Chance(25) {
					h.Frag, h.Sum, h.No = true, uint16(r.Intn(4)), uint16(r.Intn(5))
				}
				f := frames.Build(h, body)
				pieces = append(pieces, f)
				s = append(s, f...)
			}
			if r.Chance(70) {
				s = mutateStream(r, s, pieces)
			}
			if r.Chance(30) {
				s = s[:r.Intn(len(s)+1)]
			}
			emit(fw.Case{Op: "hostile", Args: []string{kind, "0", closeModes[r.Intn(4)], strconv.Itoa(r.Intn(1000)), hx(s)}})
		}
	}
}

var c10Last struct {
	key string
	res string
	orc *fw.OracleFailure
}

func execC10(c fw.Case) string {
	key := c.Op + " " + strings.Join(c.Args, " ")
	var res string
	var o *fw.OracleFailure
	if c.Op == "astream" {
		res, o = execAstream(c)
	} else {
		res, o = execHostile(c)
	}
	c10Last.key, c10Last.res, c10Last.orc = key, res, o
	return res
}

var C10 = &fw.Prop{ID: "C10", Gen: genC10, Exec: execC10,
	Oracle: func(c fw.Case) *fw.OracleFailure {
		if c10Last.key != c.Op+" "+strings.Join(c.Args, " ") {
			execC10(c)
		}
		return c10Last.orc
	},
	Class: func(c fw.Case, res string) string {
		if c.Op == "astream" {
			cl := "astream:as" + c.Args[0]
			if strings.HasSuffix(res, "end=fail") {
				return cl + ":fail"
			}
			if strings.Contains(res, "complete") {
				return cl + ":complete"
			}
			return cl + ":ok"
		}
		return "hostile:" + c.Args[0] + ":" + c.Args[2]
	}}

var _ = filepath.Join
