package props

import (
	"fmt"
	"strconv"
	"strings"
	"sync"
	"time"

	"verif/harness/internal/frames"
	"verif/harness/internal/fw"
	"verif/harness/internal/sock"
)

// C11 scripts: J<i>:<k> connection i connects and sends its first message with the phone of key k;
// X<i> connection i closes; S<k> a platform command is sent to key k. Every action is awaited.
// Result: one word per token (joined|refused, left, to<i>|noexist) and "ev=ok" when the join/leave callbacks the
// server reported are paired as the property demands.
func runRegScript(script string) (string, *fw.OracleFailure) {
	srv, err := sysServer()
	if err != nil {
		return "server-start-failed", &fw.OracleFailure{Sig: "server/start", Msg: err.Error()}
	}
	mark := srv.Len()
	phones := map[string][]byte{}
	conns := map[string]*sock.Client{}
	connKey := map[string]string{}
	joinedOK := map[string]bool{}
	defer func() {
		for _, c := range conns {
			c.Close()
		}
		if phones["z"] != nil { // the fixed key must be free again before the next script uses it
			srv.WaitForFrom(mark, func(e sock.Event) bool { return false }, 60*time.Millisecond)
		}
	}()
	var out []string
	var orc *fw.OracleFailure
	flag := func(sig, msg string) {
		if orc == nil {
			orc = &fw.OracleFailure{Sig: sig, Msg: msg}
		}
	}
	ncmd := 0
	for _, tok := range strings.Split(script, ",") {
		if !srv.Alive() {
			return "scenario-failed:server/died", &fw.OracleFailure{Sig: "server/died", Msg: "server process died during a registry scenario"}
		}
		switch tok[0] {
		case 'J':
			parts := strings.Split(tok[1:], ":")
			i, k := parts[0], parts[1]
			if phones[k] == nil {
				phones[k] = actNextPhone()
				if k == "z" { // the all-zero phone number: its key is the only default key that starts with '0'
					phones[k] = []byte{0, 0, 0, 0, 0, 0}
				}
			}
			c, err := sock.Dial(srv.Addr())
			if err != nil {
				return "scenario-failed:server/refuses-connection", &fw.OracleFailure{Sig: "server/refuses-connection", Msg: err.Error()}
			}
			conns[i], connKey[i] = c, k
			_ = c.Send(frames.Build(frames.H{ID: 0x0002, Phone: phones[k], Serial: 1}, nil))
			if fs := c.ReadFrames(1, 800*time.Millisecond); len(fs) >= 1 {
				out = append(out, "joined")
				joinedOK[i] = true
			} else if c.Closed(800 * time.Millisecond) {
				out = append(out, "refused")
				delete(conns, i)
			} else {
				out = append(out, "silent")
			}
		case 'X':
			i := tok[1:]
			if c := conns[i]; c != nil {
				c.Close()
				delete(conns, i)
				key := phoneStr(phones[connKey[i]])
				n := srv.Len()
				_, _, ok := srv.WaitForFrom(mark, func(e sock.Event) bool {
					return sock.Str(e, "event") == "leave" && sock.Str(e, "key") == key && !seenBefore(e)
				}, 2*time.Second)
				_ = n
				if ok {
					out = append(out, "left")
				} else {
					out = append(out, "noleave")
				}
			} else {
				out = append(out, "left")
			}
		case 'S':
			k := tok[1:]
			if phones[k] == nil {
				phones[k] = actNextPhone()
			}
			ncmd++
			tag := fmt.Sprintf("reg%d_%d", mark, ncmd)
			t0 := time.Now()
			_ = srv.Command(fmt.Sprintf("send %s %s %d 00 150", tag, phoneStr(phones[k]), 0x8103))
			got := ""
			for i, c := range conns {
				for _, f := range c.ReadFrames(1, 120*time.Millisecond) {
					if h, _, ok := frames.Parse(f); ok && h.ID == 0x8103 {
						got += "to" + i
					}
				}
			}
			e, ok := srv.WaitFor(func(e sock.Event) bool { return sock.Str(e, "event") == "active-result" && sock.Str(e, "tag") == tag }, 2*time.Second)
			if !ok {
				flag("registry/command-stranded", "a SendActiveMessage call did not return")
				out = append(out, "stranded")
				continue
			}
			if strings.Contains(sock.Str(e, "err"), "key not exist") && !sock.Bool(e, "isNotExist") {
				flag("registry/notexist-identity", "the error for a key that is not online is no longer service.ErrNotExistKey (errors.Is): "+sock.Str(e, "err"))
			}
			if sock.Bool(e, "isNotExist") {
				if got != "" {
					flag("registry/route", "not-exist returned although the command reached connection "+got)
				}
				if el := time.Since(t0); el > 500*time.Millisecond {
					flag("registry/notexist-slow", fmt.Sprintf("not-exist took %v", el))
				}
				out = append(out, "noexist")
			} else {
				if got == "" {
					got = "nobody"
				}
				out = append(out, got)
			}
		}
	}
	// callbacks: per server-side connection, in order of appearance after `mark`
	type cb struct {
		joins, leaves int
		jkey, lkey    string
		jerr          bool
	}
	per := map[int]*cb{}
	time.Sleep(30 * time.Millisecond)
	for _, e := range srv.Snapshot()[mark:] {
		id := sock.Int(e, "conn")
		switch sock.Str(e, "event") {
		case "join":
			if per[id] == nil {
				per[id] = &cb{}
			}
			per[id].joins++
			per[id].jkey = sock.Str(e, "key")
			per[id].jerr = sock.Str(e, "err") != ""
		case "leave":
			if per[id] == nil {
				per[id] = &cb{}
			}
			per[id].leaves++
			per[id].lkey = sock.Str(e, "key")
		}
	}
	ev := "ok"
	for id, c := range per {
		if c.joins > 1 || c.leaves > 1 {
			ev = "bad"
			flag("registry/callbacks-repeated", fmt.Sprintf("connection %d: %d join and %d leave callbacks", id, c.joins, c.leaves))
		}
		if c.leaves == 1 && c.joins == 1 && !c.jerr && c.lkey != c.jkey {
			ev = "bad"
			flag("registry/leave-key", fmt.Sprintf("connection %d joined as %q and left as %q", id, c.jkey, c.lkey))
		}
		if c.leaves == 1 && c.jerr && c.lkey != "" {
			ev = "bad"
			flag("registry/leave-key", fmt.Sprintf("refused connection %d left with key %q", id, c.lkey))
		}
	}
	return strings.Join(out, " ") + " ev=" + ev, orc
}

func seenBefore(e sock.Event) bool { return false }

// runRegRace: n connections present the same (fresh) key at the same moment, `rounds` times. Whatever the order in
// which the manager sees their joins, exactly one is accepted (answered) and all others are refused (closed).
// runRegScale: n terminals online at once, all but k leave, then (a) a command for one of the remaining terminals must
// reach it, (b) a second connection presenting a remaining terminal's key must be refused, (c) a terminal that left can
// join again. The registry model answers "delivered=1 dup=refused rejoin=joined" for every n and k.
func runRegScale(n, k int) (string, *fw.OracleFailure) {
	srv, err := sysServer()
	if err != nil {
		return "server-start-failed", &fw.OracleFailure{Sig: "server/start", Msg: err.Error()}
	}
	fail := func(sig, msg string) (string, *fw.OracleFailure) {
		return "scenario-failed:" + sig, &fw.OracleFailure{Sig: sig, Msg: msg}
	}
	phones := make([][]byte, n)
	cls := make([]*sock.Client, n)
	defer func() {
		for _, c := range cls {
			if c != nil {
				c.Close()
			}
		}
		time.Sleep(150 * time.Millisecond)
	}()
	for i := 0; i < n; i++ {
		phones[i] = actNextPhone()
		c, err := sock.Dial(srv.Addr())
		if err != nil {
			return fail("server/refuses-connection", err.Error())
		}
		cls[i] = c
		_ = c.Send(frames.Build(frames.H{ID: 0x0002, Phone: phones[i], Serial: 1}, nil))
	}
	for i := 0; i < n; i++ {
		if fs := cls[i].ReadFrames(1, 3*time.Second); len(fs) < 1 {
			return fail("registry/join-unanswered", fmt.Sprintf("terminal %d of %d connecting at once got no reply to its first heartbeat", i+1, n))
		}
	}
	mark := srv.Len()
	for i := k; i < n; i++ {
		cls[i].Close()
		cls[i] = nil
	}
	left := 0
	deadline := time.Now().Add(5 * time.Second)
	for left < n-k && time.Now().Before(deadline) {
		left = 0
		for _, e := range srv.Snapshot()[mark:] {
			if sock.Str(e, "event") == "leave" {
				left++
			}
		}
		time.Sleep(10 * time.Millisecond)
	}
	// (a) a command for a terminal that is still connected
	t := k / 2
	key := phoneStr(phones[t])
	_ = srv.Command(fmt.Sprintf("send scale %s %d 00 %d", key, 0x8103, 1500))
	delivered := 0
	if fs := cls[t].ReadFrames(1, 1200*time.Millisecond); len(fs) >= 1 {
		if h, _, ok := frames.Parse(fs[0]); ok && h.ID == 0x8103 {
			delivered = 1
			_ = cls[t].Send(frames.Build(frames.H{ID: 0x0001, Phone: phones[t], Serial: 2}, []byte{byte(h.Serial >> 8), byte(h.Serial), 0x81, 0x03, 0}))
		}
	}
	// (b) a second connection with the key of a connected terminal
	dup := "refused"
	if d, err := sock.Dial(srv.Addr()); err == nil {
		_ = d.Send(frames.Build(frames.H{ID: 0x0002, Phone: phones[t], Serial: 7}, nil))
		if fs := d.ReadFrames(1, 700*time.Millisecond); len(fs) >= 1 {
			dup = "accepted"
		}
		d.Close()
	}
	// (c) a terminal that left comes back
	rejoin := "joined"
	if n > k {
		if d, err := sock.Dial(srv.Addr()); err == nil {
			_ = d.Send(frames.Build(frames.H{ID: 0x0002, Phone: phones[n-1], Serial: 9}, nil))
			if fs := d.ReadFrames(1, 1500*time.Millisecond); len(fs) < 1 {
				rejoin = "refused"
			}
			cls[n-1] = d
		}
	}
	res := fmt.Sprintf("delivered=%d dup=%s rejoin=%s", delivered, dup, rejoin)
	var orc *fw.OracleFailure
	switch {
	case delivered != 1:
		orc = &fw.OracleFailure{Sig: "registry/route-to-owner", Msg: fmt.Sprintf("%d terminals were online, %d left; a command for terminal %s, still connected, did not reach it", n, n-k, key)}
	case dup != "refused":
		orc = &fw.OracleFailure{Sig: "registry/owners", Msg: fmt.Sprintf("%d terminals were online, %d left; a second connection presenting the key of the connected terminal %s was accepted", n, n-k, key)}
	case rejoin != "joined":
		orc = &fw.OracleFailure{Sig: "registry/key-not-freed", Msg: fmt.Sprintf("a terminal that had left could not join again (%d online, %d left)", n, n-k)}
	}
	return res, orc
}

// runRegBlock: the manager goroutine is kept busy for several seconds (it hands a command to a terminal whose queue is
// full and whose writer sits in a slow write callback) while another terminal connects. Its join has to wait — and must
// then succeed: the heartbeat is answered, a command for it is routed to it, and after it leaves the key is free again.
func runRegBlock(slowMs int) (string, *fw.OracleFailure) {
	srv, err := sysServer("-slow-write-ms", strconv.Itoa(slowMs))
	if err != nil {
		return "server-start-failed", &fw.OracleFailure{Sig: "server/start", Msg: err.Error()}
	}
	defer sysStopAll()
	fail := func(sig, msg string) (string, *fw.OracleFailure) {
		return "scenario-failed:" + sig, &fw.OracleFailure{Sig: sig, Msg: msg}
	}
	pa, pb := actNextPhone(), actNextPhone()
	a, err := sock.Dial(srv.Addr())
	if err != nil {
		return fail("server/refuses-connection", err.Error())
	}
	defer a.Close()
	_ = a.Send(frames.Build(frames.H{ID: 0x0002, Phone: pa, Serial: 1}, nil))
	if fs := a.ReadFrames(1, 3*time.Second); len(fs) < 1 {
		return fail("registry/join-unanswered", "the first terminal got no reply to its heartbeat")
	}
	// A's writer now sleeps in the write callback; five commands: three fill its queue, the manager blocks on the fourth
	for i := 0; i < 5; i++ {
		_ = srv.Command(fmt.Sprintf("send blk%d %s %d 00 %d", i, phoneStr(pa), 0x8103, 1000))
	}
	time.Sleep(300 * time.Millisecond)
	b, err := sock.Dial(srv.Addr())
	if err != nil {
		return fail("server/refuses-connection", err.Error())
	}
	_ = b.Send(frames.Build(frames.H{ID: 0x0002, Phone: pb, Serial: 1}, nil))
	joined, routed := 0, 0
	if fs := b.ReadFrames(1, time.Duration(3*slowMs+3000)*time.Millisecond); len(fs) >= 1 {
		joined = 1
	}
	if joined == 1 {
		_ = srv.Command(fmt.Sprintf("send blkb %s %d 00 %d", phoneStr(pb), 0x8103, 1000))
		if fs := b.ReadFrames(1, time.Duration(3*slowMs+3000)*time.Millisecond); len(fs) >= 1 {
			if h, _, ok := frames.Parse(fs[0]); ok && h.ID == 0x8103 {
				routed = 1
			}
		}
	}
	b.Close()
	// after it has left: its key is free — a command for it is refused as not online, and it can join again
	time.Sleep(time.Duration(slowMs+500) * time.Millisecond)
	mark := srv.Len()
	_ = srv.Command(fmt.Sprintf("send blkgone %s %d 00 %d", phoneStr(pb), 0x8103, 500))
	after := "pending"
	if e, _, ok := srv.WaitForFrom(mark, func(e sock.Event) bool { return sock.Str(e, "event") == "active-result" && sock.Str(e, "tag") == "blkgone" }, time.Duration(2*slowMs+3000)*time.Millisecond); ok {
		if sock.Bool(e, "isNotExist") {
			after = "noexist"
		} else {
			after = "other"
		}
	}
	rejoin := 0
	if b2, err := sock.Dial(srv.Addr()); err == nil {
		_ = b2.Send(frames.Build(frames.H{ID: 0x0002, Phone: pb, Serial: 5}, nil))
		if fs := b2.ReadFrames(1, time.Duration(2*slowMs+3000)*time.Millisecond); len(fs) >= 1 {
			rejoin = 1
		}
		b2.Close()
	}
	res := fmt.Sprintf("joined=%d routed=%d after=%s rejoin=%d", joined, routed, after, rejoin)
	var orc *fw.OracleFailure
	if joined == 1 && routed == 1 && after != "noexist" {
		orc = &fw.OracleFailure{Sig: "registry/key-not-freed", Msg: fmt.Sprintf("a terminal joined while the session manager was busy for about %d ms and left again; a command for its key afterwards came back as %q instead of not-online", slowMs, after)}
	} else if joined == 1 && routed == 1 && rejoin != 1 {
		orc = &fw.OracleFailure{Sig: "registry/key-not-freed", Msg: "a terminal that joined while the session manager was busy, and left, could not join again"}
	}
	if joined != 1 {
		orc = &fw.OracleFailure{Sig: "registry/join-unanswered", Msg: fmt.Sprintf("a terminal that connected while the session manager was busy for about %d ms (handing a command to a terminal with a full queue) never got its first heartbeat answered", slowMs)}
	} else if routed != 1 {
		orc = &fw.OracleFailure{Sig: "registry/route-to-owner", Msg: "a command for the terminal that joined while the manager was busy did not reach it"}
	}
	return res, orc
}

func runRegRace(n, rounds int) (string, *fw.OracleFailure) {
	srv, err := sysServer()
	if err != nil {
		return "server-start-failed", &fw.OracleFailure{Sig: "server/start", Msg: err.Error()}
	}
	lo, hi := n+1, -1
	var orc *fw.OracleFailure
	for r := 0; r < rounds; r++ {
		if !srv.Alive() {
			return "scenario-failed:server/died", &fw.OracleFailure{Sig: "server/died", Msg: "server process died during a registry scenario"}
		}
		phone := actNextPhone()
		hb := frames.Build(frames.H{ID: 0x0002, Phone: phone, Serial: 1}, nil)
		cls := make([]*sock.Client, n)
		for i := range cls {
			c, err := sock.Dial(srv.Addr())
			if err != nil {
				return "scenario-failed:server/refuses-connection", &fw.OracleFailure{Sig: "server/refuses-connection", Msg: err.Error()}
			}
			cls[i] = c
		}
		start := make(chan struct{})
		var wg sync.WaitGroup
		accepted := make([]bool, n)
		for i, c := range cls {
			wg.Add(1)
			go func(i int, c *sock.Client) {
				defer wg.Done()
				<-start
				_ = c.Send(hb)
				if fs := c.ReadFrames(1, 800*time.Millisecond); len(fs) >= 1 {
					accepted[i] = true
				}
			}(i, c)
		}
		close(start)
		wg.Wait()
		k := 0
		for _, a := range accepted {
			if a {
				k++
			}
		}
		if k < lo {
			lo = k
		}
		if k > hi {
			hi = k
		}
		if k != 1 && orc == nil {
			orc = &fw.OracleFailure{Sig: "registry/owners", Msg: fmt.Sprintf("%d connections presented key %s at the same moment and %d of them were accepted (answered); exactly one may own the key", n, phoneStr(phone), k)}
		}
		mark := srv.Len()
		for _, c := range cls {
			c.Close()
		}
		srv.WaitForFrom(mark, func(e sock.Event) bool {
			return sock.Str(e, "event") == "leave" && sock.Str(e, "key") == phoneStr(phone)
		}, 300*time.Millisecond)
	}
	return fmt.Sprintf("ok rounds=%d owners=%d..%d", rounds, lo, hi), orc
}

func genRegScripts(r *fw.Rng, n int) []string {
	out := []string{
		"J0:a,J1:a,S9,S0a,X0,J2:a",
		"J0:a,Sa,X0,Sa,J1:a,Sa",
		"J0:a,J1:b,Sa,Sb,X0,Sa,Sb,X1,Sb",
		"J0:a,J1:a,J2:a,Sa,X0,J3:a,Sa",
		"Sa,J0:a,X0,Sa",
		"J0:z,Sz,J1:z,Sz,X0,Sz",
		"J0:z,J1:a,Sz,Sa,X0,Sz,Sa",
	}
	for len(out) < n {
		var toks []string
		nconn := 0
		live := map[int]bool{}
		keys := "abc"
		for k := 0; k < 4+r.Intn(6); k++ {
			switch r.Intn(4) {
			case 0, 1:
				if nconn < 6 {
					toks = append(toks, fmt.Sprintf("J%d:%c", nconn, keys[r.Intn(3)]))
					live[nconn] = true
					nconn++
				}
			case 2:
				toks = append(toks, fmt.Sprintf("S%c", keys[r.Intn(3)]))
			case 3:
				for i := range live {
					toks = append(toks, "X"+strconv.Itoa(i))
					delete(live, i)
					break
				}
			}
		}
		if len(toks) > 0 {
			out = append(out, strings.Join(toks, ","))
		}
	}
	// fix the typo-like token in the first fixed script (S0a is not a key): keep scripts well formed
	for i := range out {
		out[i] = strings.ReplaceAll(out[i], "S0a", "Sa")
	}
	return out
}

var regLast struct {
	key string
	orc *fw.OracleFailure
}

var C11 = &fw.Prop{ID: "C11",
	Gen: func(r *fw.Rng, tier string, emit func(fw.Case)) {
		n := 30
		if tier == "thorough" {
			n = 400
		}
		for _, s := range genRegScripts(r, n) {
			emit(fw.Case{Op: "reg", Args: []string{s}})
		}
		// simultaneous duplicate-key connects (the interleaving of their joins is the scheduler's choice)
		rr := 4
		if tier == "thorough" {
			rr = 60
		}
		for i := 0; i < rr; i++ {
			emit(fw.Case{Op: "regrace", Args: []string{strconv.Itoa(2 + r.Intn(7)), "25"}})
		}
		// many terminals online at once, most of them leave: the registry still knows exactly the ones that stayed
		emit(fw.Case{Op: "regblock", Args: []string{"4500"}})
		emit(fw.Case{Op: "regscale", Args: []string{"60", "7"}})
		emit(fw.Case{Op: "regscale", Args: []string{"1100", "200"}})
		if tier == "thorough" {
			emit(fw.Case{Op: "regscale", Args: []string{"2100", "500"}})
			emit(fw.Case{Op: "regscale", Args: []string{"1030", "3"}})
		}
	},
	Exec: func(c fw.Case) string {
		if c.Op == "regblock" {
			ms, _ := strconv.Atoi(c.Args[0])
			res, o := runRegBlock(ms)
			regLast.key, regLast.orc = "block "+c.Args[0], o
			return res
		}
		if c.Op == "regscale" {
			n, _ := strconv.Atoi(c.Args[0])
			k, _ := strconv.Atoi(c.Args[1])
			res, o := runRegScale(n, k)
			regLast.key, regLast.orc = "scale "+strings.Join(c.Args, " "), o
			return res
		}
		if c.Op == "regrace" {
			n, _ := strconv.Atoi(c.Args[0])
			rounds, _ := strconv.Atoi(c.Args[1])
			res, o := runRegRace(n, rounds)
			regLast.key, regLast.orc = strings.Join(c.Args, " "), o
			return res
		}
		res, o := runRegScript(c.Args[0])
		regLast.key, regLast.orc = c.Args[0], o
		return res
	},
	Oracle: func(c fw.Case) *fw.OracleFailure {
		if c.Op == "regblock" {
			if regLast.key == "block "+c.Args[0] {
				o := regLast.orc
				regLast.key = ""
				return o
			}
			ms, _ := strconv.Atoi(c.Args[0])
			_, o := runRegBlock(ms)
			return o
		}
		if c.Op == "regscale" {
			if regLast.key == "scale "+strings.Join(c.Args, " ") {
				o := regLast.orc
				regLast.key = ""
				return o
			}
			n, _ := strconv.Atoi(c.Args[0])
			k, _ := strconv.Atoi(c.Args[1])
			_, o := runRegScale(n, k)
			return o
		}
		if c.Op == "regrace" {
			if regLast.key == strings.Join(c.Args, " ") {
				o := regLast.orc
				regLast.key = ""
				return o
			}
			n, _ := strconv.Atoi(c.Args[0])
			rounds, _ := strconv.Atoi(c.Args[1])
			_, o := runRegRace(n, rounds)
			return o
		}
		if regLast.key == c.Args[0] {
			return regLast.orc
		}
		_, o := runRegScript(c.Args[0])
		return o
	},
	Class: func(c fw.Case, res string) string {
		cl := c.Op
		for _, k := range []string{"refused", "noexist", "to"} {
			if strings.Contains(res, k) {
				cl += ":" + k
			}
		}
		return cl
	}}
