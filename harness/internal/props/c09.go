package props

import (
	"bytes"
	"fmt"
	"strings"
	"time"
	"unsafe"

	"github.com/cuteLittleDevil/go-jt808/service"
	"verif/harness/internal/frames"
	"verif/harness/internal/fw"
)

func addrRange(b []byte) (uintptr, uintptr) {
	if cap(b) == 0 {
		return 0, 0
	}
	lo := uintptr(unsafe.Pointer(unsafe.SliceData(b)))
	return lo, lo + uintptr(len(b))
}

func overlaps(alo, ahi, blo, bhi uintptr) bool {
	return alo < bhi && blo < ahi && alo != ahi && blo != bhi
}

// renderStable renders everything of a delivered message that C09 talks about.
func renderStable(m *service.Message) string {
	h := m.JTMessage.Header
	// the BCD phone is unexported; Header.Encode writes it verbatim into the frame, so it is observed through a
	// throw-away copy of the header
	// (the delivered bytes are rendered BEFORE Encode runs: an Encode that writes into the frame it was decoded from
	// must not be able to hide its own traces)
	td, body := fw.Hex(m.ExtensionFields.TerminalData), fw.Hex(m.JTMessage.Body)
	hc := *h
	pc := *h.Property
	hc.Property = &pc
	hc.ReplyID, hc.PlatformSerialNumber = 0, 0 // the writer stamps these on the shared header when it answers: not message content
	enc := hc.Encode(nil)
	return fmt.Sprintf("%d|%s|%d|%d|%d|%s|%s|%x", h.ID, h.TerminalPhoneNo, h.SerialNumber, h.SubPackageSum, h.SubPackageNo,
		body, td, enc)
}

// execStab: feed a session through a real packageParse with the reader's buffer discipline, keep every
// delivered *Message, and look at them again after all later reads and after the connection teardown.
func execStab(cs []pchunk) string {
	vp := service.VerifNewParser()
	buf := make([]byte, 1023)
	type kept struct {
		m     *service.Message
		first string
	}
	var all []kept
	alias := 0
	for _, c := range cs {
		if c.dt > 0 { // the connection was idle for dt ms: stalled transfers are re-requested at the next read
			vp.ShiftTimes(time.Duration(c.dt) * time.Millisecond)
		}
		var in []byte
		if len(c.data) <= len(buf) {
			n := copy(buf, c.data)
			in = buf[:n]
		} else {
			in = fw.Exact(c.data)
		}
		msgs, err := vp.Parse(in)
		blo, bhi := addrRange(buf[:cap(buf)])
		hlo, hhi := vp.HistRange()
		for _, m := range msgs {
			all = append(all, kept{m, renderStable(m)})
			for _, f := range [][]byte{m.JTMessage.Body, m.ExtensionFields.TerminalData} {
				lo, hi := addrRange(f)
				if overlaps(lo, hi, blo, bhi) || overlaps(lo, hi, hlo, hhi) {
					alias++
				}
			}
		}
		for _, s := range vp.SlotRanges() {
			if overlaps(s[0], s[1], blo, bhi) || overlaps(s[0], s[1], hlo, hhi) {
				alias++
			}
		}
		if err != nil {
			break
		}
	}
	// teardown as in connection.reader's deferred function
	clear(buf)
	vp.Clear()
	changed := 0
	for _, k := range all {
		if renderStable(k.m) != k.first {
			changed++
		}
	}
	return fmt.Sprintf("ok n=%d alias=%d changed=%d", len(all), alias, changed)
}

func genC09(r *fw.Rng, tier string, emit func(fw.Case)) {
	n := 1500
	if tier == "thorough" {
		n = 30000
	}
	for i := 0; i < n; i++ {
		// frames with and without escape bytes (the decoder returns a sub-slice of its input only when there is no 0x7d),
		// equal lengths (so that a later read overwrites exactly the same bytes), fragmented and not
		k := 2 + r.Intn(6)
		sameLen := r.Intn(30)
		var fs []finfo
		var tr *transferSpec
		var order []int
		for j := 0; j < k; j++ {
			if tr == nil && r.Chance(15) {
				t := randTransfer(r, 0x0801, 4)
				tr, order = &t, arrival(r, len(t.bodies), 0)
			}
			if tr != nil && r.Chance(70) {
				fs = append(fs, tr.packet(order[0], r))
				order = order[1:]
				if len(order) == 0 {
					tr = nil
				}
				continue
			}
			h := unfragH(r)
			var body []byte
			switch r.Intn(3) {
			case 0:
				body = bytes.Repeat([]byte{byte(0x10 + r.Intn(0x60))}, sameLen) // escape-free
			case 1:
				body = r.BytesFrom(sameLen, frames.Special, 50)
			default:
				body = frames.RandBody(r, 60)
			}
			fs = append(fs, mkFrame(h, body))
		}
		var cs []pchunk
		switch r.Intn(3) {
		case 0: // one frame per read (fast path)
			for _, f := range fs {
				cs = append(cs, pchunk{0, f.bytes})
			}
		case 1: // several per read / split (buffered path, history buffer)
			var s []byte
			for _, f := range fs {
				s = append(s, f.bytes...)
			}
			cs = cutRandom(r, s, 200)
		default:
			var s []byte
			for _, f := range fs {
				s = append(s, f.bytes...)
			}
			cs = cutRandom(r, s, 1023)
		}
		emit(fw.Case{Op: "stab", Args: []string{encodeSession(cs)}})
	}
	// stalled transfers: the parser builds its re-requests (0x8003) from what it kept of the first package; the packages
	// delivered earlier must look the same afterwards
	for i := 0; i < n/15; i++ {
		t := randTransfer(r, uint16(r.Pick([]int{0x0801, 0x0200, 0x0704})), 5)
		for len(t.bodies) < 2 {
			t.bodies = append(t.bodies, r.Bytes(1+r.Intn(40)))
		}
		var cs []pchunk
		have := 1 + r.Intn(len(t.bodies)-1)
		for k := 1; k <= have; k++ {
			cs = append(cs, pchunk{0, t.packet(k, r).bytes})
		}
		for k := 0; k < 1+r.Intn(3); k++ {
			cs = append(cs, pchunk{5100 + r.Intn(3000), mkFrame(unfragH(r), frames.RandBody(r, 20)).bytes})
		}
		if r.Bool() {
			for k := have + 1; k <= len(t.bodies); k++ {
				cs = append(cs, pchunk{0, t.packet(k, r).bytes})
			}
		}
		emit(fw.Case{Op: "stab", Args: []string{encodeSession(cs)}})
	}
	// socket level: callbacks keep the *Message they were given and look again after the connection is gone
	m := 40
	if tier == "thorough" {
		m = 800
	}
	for i := 0; i < m; i++ {
		phone := frames.RandPhone(r, false)
		var ws []pchunk
		for j := 0; j < 6+r.Intn(20); j++ {
			h := frames.H{ID: uint16(r.Pick([]int{0x0002, 0x0200, 0x0102, 0x0801})), Phone: phone, Serial: uint16(0x1234 + 7*j)} // never equal to the platform serial of the reply (a writer that scribbles its serial over the stored frame must show)
			body := bytes.Repeat([]byte{byte(0x20 + j)}, 36+r.Intn(3))
			ws = append(ws, pchunk{0, frames.Build(h, body)})
			if j == 2 && i%2 == 0 {
				// a sub-packaged upload in the middle of the traffic: its packages (and the reassembled message, which is
				// answered) are handed to the callbacks like every other message, package numbers included
				t := transferSpec{id: 0x0801, phone: phone, serial: uint16(0x4000 + i)}
				for k := 0; k < 2+r.Intn(2); k++ {
					t.bodies = append(t.bodies, bytes.Repeat([]byte{byte(0x41 + k)}, 40))
				}
				for k := range t.bodies {
					ws = append(ws, pchunk{0, t.packet(k+1, r).bytes})
				}
			}
		}
		emit(fw.Case{Op: "stabsock", Args: []string{encodeSession(ws)}})
	}
}

// stabRecorder keeps the pointers handed to the callbacks.
type stabRecorder struct {
	convRecorder
	kept []struct {
		m     *service.Message
		first string
	}
	keptW []struct {
		m     service.Message
		first string
	}
}

func (r *stabRecorder) OnReadExecutionEvent(m *service.Message) {
	r.mu.Lock()
	r.kept = append(r.kept, struct {
		m     *service.Message
		first string
	}{m, renderStable(m)})
	r.mu.Unlock()
	r.convRecorder.OnReadExecutionEvent(m)
}

func (r *stabRecorder) OnWriteExecutionEvent(m service.Message) {
	time.Sleep(200 * time.Microsecond)
	r.mu.Lock()
	r.keptW = append(r.keptW, struct {
		m     service.Message
		first string
	}{m, renderStable(&m) + "|" + fw.Hex(m.ExtensionFields.PlatformData)})
	r.mu.Unlock()
	r.convRecorder.OnWriteExecutionEvent(m)
}

func execStabSock(cs []pchunk) string {
	convStart()
	convMu.Lock()
	defer convMu.Unlock()
	rec := &stabRecorder{}
	convCurMu.Lock()
	convCurAny = rec
	convCurMu.Unlock()
	defer func() {
		convCurMu.Lock()
		convCurAny = nil
		convCurMu.Unlock()
	}()
	c, err := dialConv()
	if err != nil {
		return "dial-failed"
	}
	for _, ch := range cs {
		if _, err := c.Write(ch.data); err != nil {
			break
		}
		time.Sleep(50 * time.Microsecond)
	}
	// wait until the server has answered everything it is going to answer, then close and wait for the teardown
	_ = c.SetReadDeadline(time.Now().Add(150 * time.Millisecond))
	buf := make([]byte, 65536)
	for {
		if _, err := c.Read(buf); err != nil {
			break
		}
		_ = c.SetReadDeadline(time.Now().Add(30 * time.Millisecond))
	}
	c.Close()
	for i := 0; i < 500; i++ {
		left := false
		for _, e := range rec.snapshot() {
			if e.kind == "leave" {
				left = true
			}
		}
		if left {
			break
		}
		time.Sleep(time.Millisecond)
	}
	time.Sleep(2 * time.Millisecond)
	rec.mu.Lock()
	defer rec.mu.Unlock()
	changed := 0
	for _, k := range rec.kept {
		if renderStable(k.m) != k.first {
			changed++
		}
	}
	for _, k := range rec.keptW {
		m := k.m
		if renderStable(&m)+"|"+fw.Hex(m.ExtensionFields.PlatformData) != k.first {
			changed++
		}
	}
	return fmt.Sprintf("ok changed=%d", changed)
}

func oracleC09(c fw.Case) *fw.OracleFailure {
	var res string
	switch c.Op {
	case "stab":
		res = fw.SafeExec(func() string { return execStab(decodeSession(c.Args[0])) })
	case "stabsock":
		res = fw.SafeExec(func() string { return execStabSock(decodeSession(c.Args[0])) })
	default:
		return nil
	}
	if res == "panic" || res == "dial-failed" {
		return &fw.OracleFailure{Sig: "stable/" + res, Msg: res}
	}
	if !strings.Contains(res, "changed=0") {
		return &fw.OracleFailure{Sig: "stable/changed/" + c.Op, Msg: "messages handed out earlier changed after later reads / teardown: " + res}
	}
	if strings.Contains(res, "alias=") && !strings.Contains(res, "alias=0") {
		return &fw.OracleFailure{Sig: "stable/alias/" + c.Op, Msg: "delivered byte slices or stored sub-package slots overlap the receive buffers: " + res}
	}
	return nil
}

var C09 = &fw.Prop{ID: "C09", Gen: genC09, Oracle: oracleC09,
	Exec: func(c fw.Case) string {
		switch c.Op {
		case "stab":
			return execStab(decodeSession(c.Args[0]))
		case "stabsock":
			return execStabSock(decodeSession(c.Args[0]))
		}
		return "bad-op"
	},
	Class: func(c fw.Case, res string) string {
		cs := decodeSession(c.Args[0])
		if len(cs) <= 1 {
			return ""
		}
		return c.Op
	}}
