package props

import "verif/harness/internal/fw"

var All = map[string]*fw.Prop{
	"C01": C01,
	"C02": C02,
	"C16": C16,
	"C17": C17,
}
