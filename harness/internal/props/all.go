package props

import (
	"time"

	"verif/harness/internal/fw"
)

var All = map[string]*fw.Prop{
	"C01": C01,
	"C02": C02,
	"C03": C03,
	"C07": C07,
	"C04": C04,
	"C05": C05,
	"C06": C06,
	"C08": C08,
	"C09": C09,
	"C10": C10,
	"C11": C11,
	"C12": C12,
	"C13": C13,
	"C14": C14,
	"C15": C15,
	"C19": C19,
	"C20": C20,
	"C16": C16,
	"C17": C17,
	"C18": C18,
}

// StopServers ends the server subprocesses the socket-level checks started.
func StopServers() { sysStopAll(); attStopAll(); c10StopAll() }

func init() {
	// in-process checks of pure functions: a call that takes 20 s does not terminate
	for _, id := range []string{"C01", "C02", "C03", "C04", "C05", "C07", "C08", "C14", "C16", "C17"} {
		All[id].CaseTimeout = 20 * time.Second
	}
}
