package props

// Registry of every decoder the codec properties (C03 totality, C07 round trip)
// quantify over: the 35 message-body types of protocol/model, the five vendor
// extension parsers (stand-alone and plugged into T0x0200 through
// CustomAdditionContentFunc), jt808.JTMessage.Decode and jt1078.Packet.Decode.

import (
	"fmt"
	"sort"
	"strings"

	"github.com/cuteLittleDevil/go-jt808/protocol/jt1078"
	"github.com/cuteLittleDevil/go-jt808/protocol/jt808"
	"github.com/cuteLittleDevil/go-jt808/protocol/model"
	"github.com/cuteLittleDevil/go-jt808/shared/consts"
	"verif/harness/internal/fw"
)

// codecCtx is the parsed form of a context string: "v2011" | "v2013" | "v2019",
// optionally followed by "/JS" | "/HLJ" | "/GD" | "/HN" | "/SC"; "-" for the two
// frame decoders, "n<size>" for utils.String2FillingBytes.
type codecCtx struct {
	s   string
	ver consts.ProtocolVersionType
	dia consts.ActiveSafetyType // 0 = the type does not depend on a dialect
	n   int
}

var codecDialects = []struct {
	name string
	d    consts.ActiveSafetyType
}{
	{"JS", consts.ActiveSafetyJS}, {"HLJ", consts.ActiveSafetyHLJ}, {"GD", consts.ActiveSafetyGD},
	{"HN", consts.ActiveSafetyHN}, {"SC", consts.ActiveSafetySC},
}

func codecParseCtx(s string) (codecCtx, bool) {
	c := codecCtx{s: s}
	if s == "-" {
		return c, true
	}
	if strings.HasPrefix(s, "n") {
		if _, err := fmt.Sscanf(s, "n%d", &c.n); err != nil {
			return c, false
		}
		return c, true
	}
	parts := strings.Split(s, "/")
	switch parts[0] {
	case "v2011":
		c.ver = consts.JT808Protocol2011
	case "v2013":
		c.ver = consts.JT808Protocol2013
	case "v2019":
		c.ver = consts.JT808Protocol2019
	default:
		return c, false
	}
	if len(parts) == 2 {
		for _, d := range codecDialects {
			if d.name == parts[1] {
				c.dia = d.d
				return c, true
			}
		}
		return c, false
	}
	return c, len(parts) == 1
}

// codecRecv is a receiver of one registry entry: the value being parsed into.
type codecRecv interface {
	// parse feeds one body; "ok" or "err". It may panic (the caller guards).
	parse(body []byte) string
	// encode re-encodes the current value; ok=false when the type has no Encode.
	encode() ([]byte, bool)
	// render calls every String() the value offers.
	render()
	// vals are the values compared after a successful parse.
	vals() []interface{}
}

type codecMsg interface {
	Parse(jtMsg *jt808.JTMessage) error
}

// codecBodyRecv wraps a model type: the protocol version travels in
// jtMsg.Header.ProtocolVersion, the body in jtMsg.Body; the dialect is a field
// of the value itself (set by the constructor).
type codecBodyRecv struct {
	v   codecMsg
	ver consts.ProtocolVersionType
	// ext is the extension receiver plugged into a T0x0200 (nil otherwise)
	ext codecExt
}

func (b *codecBodyRecv) parse(body []byte) string {
	jt := jt808.NewJTMessage()
	jt.Header.ProtocolVersion = b.ver
	jt.Body = body
	if err := b.v.Parse(jt); err != nil {
		return "err"
	}
	return "ok"
}

// parseVer feeds a body under another header version than the receiver's own context (history only)
func (b *codecBodyRecv) parseVer(v consts.ProtocolVersionType, body []byte) string {
	jt := jt808.NewJTMessage()
	jt.Header.ProtocolVersion = v
	jt.Body = body
	if err := b.v.Parse(jt); err != nil {
		return "err"
	}
	return "ok"
}

func (b *codecBodyRecv) encode() ([]byte, bool) {
	if e, ok := b.v.(interface{ Encode() []byte }); ok {
		return e.Encode(), true
	}
	return nil, false
}

func (b *codecBodyRecv) render() {
	if s, ok := b.v.(fmt.Stringer); ok {
		_ = s.String()
	}
	// String() methods that the top-level String() does not reach
	switch t := b.v.(type) {
	case *model.T0x0200:
		_ = t.T0x0200AdditionDetails.String()
		_ = t.T0x0200LocationItem.AlarmSignDetails.String()
		_ = t.T0x0200LocationItem.StatusSignDetails.String()
		for _, id := range codecAdditionKeys(t.Additions) {
			if s, ok := t.Additions[id].Content.CustomValue.(fmt.Stringer); ok && s != nil {
				_ = s.String()
			}
		}
	case *model.T0x0704:
		for i := range t.Items {
			_ = t.Items[i].T0x0200AdditionDetails.String()
		}
	}
	if b.ext != nil {
		_ = b.ext.String()
	}
}

func codecAdditionKeys(m map[consts.JT808LocationAdditionType]model.Addition) []consts.JT808LocationAdditionType {
	ks := make([]consts.JT808LocationAdditionType, 0, len(m))
	for k := range m {
		ks = append(ks, k)
	}
	sort.Slice(ks, func(i, j int) bool { return ks[i] < ks[j] })
	return ks
}

// vals: the parse result. A plugged-in extension object is part of the result only through
// Additions[id].Content.CustomValue (which points at it when an item of its id was parsed); when the body has no
// such item the object is not reachable from the result and whatever it still holds is not an outcome of this parse.
func (b *codecBodyRecv) vals() []interface{} {
	return []interface{}{b.v}
}

// codecExt is the shape of the five vendor extension parsers.
type codecExt interface {
	Parse(id uint8, content []byte) (model.AdditionContent, bool)
	String() string
}

// codecExtRecv drives an extension parser directly: body = item content, the
// item id is the entry's own id. "ok" = the parser accepted the item.
type codecExtRecv struct {
	id   uint8
	v    codecExt
	last model.AdditionContent
}

func (e *codecExtRecv) parse(body []byte) string {
	c, ok := e.v.Parse(e.id, body)
	e.last = c
	if !ok {
		return "err"
	}
	return "ok"
}
func (e *codecExtRecv) encode() ([]byte, bool) { return nil, false }
func (e *codecExtRecv) render()                { _ = e.v.String() }
func (e *codecExtRecv) vals() []interface{}    { return []interface{}{e.v, &e.last} }

// codecFrameRecv: jt808.JTMessage.Decode.
type codecFrameRecv struct{ m *jt808.JTMessage }

func (f *codecFrameRecv) parse(body []byte) string {
	if err := f.m.Decode(body); err != nil {
		return "err"
	}
	return "ok"
}
func (f *codecFrameRecv) encode() ([]byte, bool) { return nil, false }
func (f *codecFrameRecv) render() {
	_ = f.m.Header.String()
	_ = f.m.Header.Property.String()
}
func (f *codecFrameRecv) vals() []interface{} { return []interface{}{f.m} }

// codecRTPRecv: jt1078.Packet.Decode; the remaining data is part of the outcome.
type codecRTPRecv struct {
	p    *jt1078.Packet
	rest []byte
}

func (f *codecRTPRecv) parse(body []byte) string {
	rest, err := f.p.Decode(body)
	f.rest = rest
	if err != nil {
		return "err"
	}
	return "ok"
}
func (f *codecRTPRecv) encode() ([]byte, bool) { return nil, false }
func (f *codecRTPRecv) render()                { _ = f.p.String() }
func (f *codecRTPRecv) vals() []interface{}    { return []interface{}{f.p, f.rest} }

// codecEntry is one row of the registry.
type codecEntry struct {
	name string // type name used in op lines
	sig  string // "<Type>.<Func>" prefix of C03 signatures
	ctxs []string
	// lightFrom: contexts with index >= lightFrom get the reduced C03 budget in
	// the quick tier (the decoder does not read the part of the context that varies)
	lightFrom int
	// lightDialects: dialects whose contexts always get the reduced budget in the quick tier
	lightDialects []string
	// weight multiplies the number of valid bodies the C03 generator starts from (0 = 1)
	weight    int
	mk        func(c codecCtx) codecRecv
	hasEncode bool
	hasString bool
	// twoWay: has a real Encode/Parse pair (C07 quantifies over it)
	twoWay bool
	// gen produces an in-domain value (pointer to the model struct), C07.
	// variant >= 0 forces a shape (list length, parameter field index), -1 = free.
	gen func(r *fw.Rng, c codecCtx, variant int) codecMsg
	// variants lists the forced shapes enumerated by the C07 generator.
	variants func(tier string) []int
	// wire produces further structurally valid bodies that gen cannot (C03 only).
	wire func(r *fw.Rng, c codecCtx) []byte
	// wrap turns a raw (mutable) form into the decoder's input (jt808 frames: checksum+escape).
	wrap func(raw []byte) []byte
}

// fullCtx tells whether context number ci gets the full C03 mutation budget in the quick tier.
func (e *codecEntry) fullCtx(ci int) bool {
	if ci >= e.lightFrom {
		return false
	}
	for _, d := range e.lightDialects {
		if strings.HasSuffix(e.ctxs[ci], "/"+d) {
			return false
		}
	}
	return true
}

func (e *codecEntry) hasCtx(s string) bool {
	for _, c := range e.ctxs {
		if c == s {
			return true
		}
	}
	return false
}

var codecVers = []string{"v2013", "v2019"}

func codecDialectCtxs() []string {
	var out []string
	for _, v := range codecVers {
		for _, d := range codecDialects {
			out = append(out, v+"/"+d.name)
		}
	}
	return out
}

func codecSign(c codecCtx) model.P9208AlarmSign {
	return model.P9208AlarmSign{ActiveSafetyType: c.dia}
}

func codecNewExt(id uint8, c codecCtx) codecExt {
	base := model.T0x0200ExtensionSBBase{P9208AlarmSign: codecSign(c)}
	switch id {
	case 0x64:
		return &model.T0x0200AdditionExtension0x64{T0x0200ExtensionSBBase: base}
	case 0x65:
		return &model.T0x0200AdditionExtension0x65{T0x0200ExtensionSBBase: base}
	case 0x66:
		return &model.T0x0200AdditionExtension0x66{T0x0200ExtensionSBBase: base}
	case 0x67:
		return &model.T0x0200AdditionExtension0x67{T0x0200ExtensionSBBase: base}
	case 0x70:
		return &model.T0x0200AdditionExtension0x70{T0x0200ExtensionSBBase: base}
	}
	panic("codec: no extension parser for id")
}

var codecExtIDs = []uint8{0x64, 0x65, 0x66, 0x67, 0x70}

// codecExtNatural is the content length each extension parser accepts (read
// from t_0x0200_addition_extensions.go): 0x66 accepts 40+9n with n=content[40].
func codecExtNatural(id uint8) int {
	switch id {
	case 0x64, 0x65, 0x70:
		return 47
	case 0x66:
		return 40
	case 0x67:
		return 41
	}
	return 0
}

func codecModelEntry(name string, twoWay bool, mk func(c codecCtx) codecMsg) *codecEntry {
	e := &codecEntry{name: name, sig: name + ".Parse", ctxs: codecVers, lightFrom: 1, twoWay: twoWay}
	e.mk = func(c codecCtx) codecRecv { return &codecBodyRecv{v: mk(c), ver: c.ver} }
	probe := mk(codecCtx{})
	_, e.hasEncode = probe.(interface{ Encode() []byte })
	_, e.hasString = probe.(fmt.Stringer)
	return e
}

// codecRegistry is built once; entries are immutable afterwards.
var codecRegistry = codecBuildRegistry()

var codecByName = func() map[string]*codecEntry {
	m := map[string]*codecEntry{}
	for _, e := range codecRegistry {
		if m[e.name] != nil {
			panic("codec: duplicate registry name " + e.name)
		}
		m[e.name] = e
	}
	return m
}()

func codecBuildRegistry() []*codecEntry {
	var es []*codecEntry
	add := func(e *codecEntry) *codecEntry { es = append(es, e); return e }
	plain := func(name string, twoWay bool, mk func() codecMsg) *codecEntry {
		return add(codecModelEntry(name, twoWay, func(codecCtx) codecMsg { return mk() }))
	}

	// terminal -> platform
	plain("T0x0001", true, func() codecMsg { return &model.T0x0001{} })
	plain("T0x0002", true, func() codecMsg { return &model.T0x0002{} }) // Parse is BaseHandle's, body is empty
	t0100 := plain("T0x0100", true, func() codecMsg { return &model.T0x0100{} })
	t0100.ctxs, t0100.lightFrom = []string{"v2011", "v2013", "v2019"}, 3
	t0102 := plain("T0x0102", true, func() codecMsg { return &model.T0x0102{} })
	t0102.lightFrom = 2
	plain("T0x0104", false, func() codecMsg { return &model.T0x0104{} }) // Encode() is a stub returning nil
	plain("T0x0200", true, func() codecMsg { return &model.T0x0200{} })
	plain("T0x0704", true, func() codecMsg { return &model.T0x0704{} })
	plain("T0x0800", true, func() codecMsg { return &model.T0x0800{} })
	plain("T0x0801", true, func() codecMsg { return &model.T0x0801{} })
	plain("T0x0805", true, func() codecMsg { return &model.T0x0805{} })
	plain("T0x1003", true, func() codecMsg { return &model.T0x1003{} })
	plain("T0x1005", true, func() codecMsg { return &model.T0x1005{} })
	plain("T0x1205", true, func() codecMsg { return &model.T0x1205{} })
	plain("T0x1206", true, func() codecMsg { return &model.T0x1206{} })
	t1210 := add(codecModelEntry("T0x1210", true, func(c codecCtx) codecMsg { return &model.T0x1210{P9208AlarmSign: codecSign(c)} }))
	t1210.ctxs, t1210.lightFrom = codecDialectCtxs(), 5
	plain("T0x1211", true, func() codecMsg { return &model.T0x1211{} })
	plain("T0x1212", true, func() codecMsg { return &model.T0x1212{} }) // Parse/Encode/String promoted from T0x1211

	// platform -> terminal
	plain("P0x8001", true, func() codecMsg { return &model.P0x8001{} })
	plain("P0x8003", true, func() codecMsg { return &model.P0x8003{} })
	plain("P0x8100", true, func() codecMsg { return &model.P0x8100{} })
	plain("P0x8103", true, func() codecMsg { return &model.P0x8103{} })
	plain("P0x8104", true, func() codecMsg { return &model.P0x8104{} })
	plain("P0x8800", true, func() codecMsg { return &model.P0x8800{} })
	plain("P0x8801", true, func() codecMsg { return &model.P0x8801{} })
	plain("P0x9003", true, func() codecMsg { return &model.P0x9003{} })
	plain("P0x9101", true, func() codecMsg { return &model.P0x9101{} })
	plain("P0x9102", true, func() codecMsg { return &model.P0x9102{} })
	plain("P0x9105", true, func() codecMsg { return &model.P0x9105{} })
	plain("P0x9201", true, func() codecMsg { return &model.P0x9201{} })
	plain("P0x9202", true, func() codecMsg { return &model.P0x9202{} })
	plain("P0x9205", true, func() codecMsg { return &model.P0x9205{} })
	plain("P0x9206", true, func() codecMsg { return &model.P0x9206{} })
	plain("P0x9207", true, func() codecMsg { return &model.P0x9207{} })
	p9208 := add(codecModelEntry("P0x9208", true, func(c codecCtx) codecMsg { return &model.P0x9208{P9208AlarmSign: codecSign(c)} }))
	p9208.ctxs, p9208.lightFrom = codecDialectCtxs(), 5
	plain("P0x9212", true, func() codecMsg { return &model.P0x9212{} })

	// vendor extension parsers, stand-alone: body = item content
	for _, id := range codecExtIDs {
		id := id
		name := fmt.Sprintf("T0x0200AdditionExtension0x%02x", id)
		// the shared base block reads a 16-byte alarm sign: with a 30-byte terminal id (HLJ, GD, SC)
		// the parser cannot get past it, so those contexts need fewer cases
		add(&codecEntry{name: name, sig: name + ".Parse", ctxs: codecDialectCtxs(), lightFrom: 5, lightDialects: []string{"HLJ", "GD", "SC"}, hasString: true,
			mk: func(c codecCtx) codecRecv { return &codecExtRecv{id: id, v: codecNewExt(id, c)} }})
	}
	// … and plugged into T0x0200 through CustomAdditionContentFunc: body = 0x0200 body
	for _, id := range codecExtIDs {
		id := id
		name := fmt.Sprintf("T0x0200+Extension0x%02x", id)
		add(&codecEntry{name: name, sig: name + ".Parse", ctxs: codecDialectCtxs(), lightFrom: 5, lightDialects: []string{"HLJ", "GD", "SC"}, hasEncode: true, hasString: true,
			mk: func(c codecCtx) codecRecv {
				ext := codecNewExt(id, c)
				t := &model.T0x0200{}
				t.CustomAdditionContentFunc = ext.Parse
				return &codecBodyRecv{v: t, ver: c.ver, ext: ext}
			}})
	}

	// frame decoders
	add(&codecEntry{name: "jt808.JTMessage", sig: "jt808.JTMessage.Decode", ctxs: []string{"-"}, lightFrom: 1, weight: 4, hasString: true,
		mk: func(codecCtx) codecRecv { return &codecFrameRecv{m: jt808.NewJTMessage()} }})
	add(&codecEntry{name: "jt1078.Packet", sig: "jt1078.Packet.Decode", ctxs: []string{"-"}, lightFrom: 1, weight: 8, hasString: true,
		mk: func(codecCtx) codecRecv { return &codecRTPRecv{p: jt1078.NewPacket()} }})

	codecAttachGenerators(es)
	return es
}
