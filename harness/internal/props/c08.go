package props

import (
	"fmt"
	"reflect"
	"sort"
	"strings"

	"github.com/cuteLittleDevil/go-jt808/protocol/jt808"
	"github.com/cuteLittleDevil/go-jt808/protocol/model"
	"github.com/cuteLittleDevil/go-jt808/shared/consts"
	"verif/harness/internal/fw"
)

// ---- rendering of what the implementation decoded (same format as the Lean driver)

func trueFields(v any) []string {
	var out []string
	rv := reflect.ValueOf(v)
	for i := 0; i < rv.NumField(); i++ {
		if rv.Field(i).Kind() == reflect.Bool && rv.Field(i).Bool() {
			out = append(out, rv.Type().Field(i).Name)
		}
	}
	sort.Strings(out)
	return out
}

func showLoc(l *model.T0x0200LocationItem) string {
	return fmt.Sprintf("L(%d,%d,%d,%d,%d,%d,%d,%s,a=[%s],s=[%s],cargo=%d)", l.AlarmSign, l.StatusSign, l.Latitude, l.Longitude,
		l.Altitude, l.Speed, l.Direction, strings.ReplaceAll(l.DateTime, " ", "_"),
		strings.Join(trueFields(l.AlarmSignDetails), ","), strings.Join(trueFields(l.StatusSignDetails), ","), l.StatusSignDetails.Cargo)
}

// itemVals renders the decoded values of one additional-information item: "Name=v,..." in a fixed order.
func itemVals(id int, c model.AdditionContent) (vals []string, flags []string) {
	p := func(n string, v any) { vals = append(vals, fmt.Sprintf("%s=%d", n, v)) }
	switch id {
	case 0x01:
		p("Mile", c.Mile)
	case 0x02:
		p("Oil", c.Oil)
	case 0x03:
		p("Speed", c.Speed)
	case 0x04:
		p("ManualAlarm", c.ManualAlarm)
	case 0x05:
		var ks []int
		for k := range c.TirePressure.Values {
			ks = append(ks, int(k))
		}
		sort.Ints(ks)
		for _, k := range ks {
			p(fmt.Sprintf("Tire%d", k), c.TirePressure.Values[uint8(k)])
		}
	case 0x06:
		p("CarTemperature", c.CarTemperature)
	case 0x11:
		p("LocationType", c.OverSpeedAlarm.LocationType)
		p("AreaID", c.OverSpeedAlarm.AreaID)
	case 0x12:
		p("LocationType", c.AreaAlarm.LocationType)
		p("AreaID", c.AreaAlarm.AreaID)
		p("Direction", c.AreaAlarm.Direction)
	case 0x13:
		p("RoadSectionID", c.DrivingTimeInsufficientAlarm.RoadSectionID)
		p("RoadSectionDrivingTimeSecond", c.DrivingTimeInsufficientAlarm.RoadSectionDrivingTimeSecond)
		p("Result", c.DrivingTimeInsufficientAlarm.Result)
	case 0x25:
		p("Value", c.ExtendVehicleStatus.Value)
		flags = trueFields(c.ExtendVehicleStatus)
	case 0x2A:
		p("Value", c.IOStatus.Value)
		flags = trueFields(c.IOStatus)
	case 0x2B:
		p("Analog", c.Analog)
	case 0x30:
		p("WIFISignalStrength", c.WIFISignalStrength)
	case 0x31:
		p("GNSSPositionNum", c.GNSSPositionNum)
	}
	return
}

func showAdds(a *model.T0x0200AdditionDetails) string {
	var ids []int
	for id := range a.Additions {
		ids = append(ids, int(id))
	}
	sort.Ints(ids)
	var items []string
	for _, id := range ids {
		ad := a.Additions[consts.JT808LocationAdditionType(id)]
		vals, flags := itemVals(id, ad.Content)
		items = append(items, fmt.Sprintf("%d:%d:%s:%s:%s", ad.ID, ad.Len, fw.Hex(ad.Content.Data), strings.Join(vals, ","), strings.Join(flags, ",")))
	}
	return "A[" + strings.Join(items, ";") + "]"
}

func jtBody(b []byte) *jt808.JTMessage {
	m := jt808.NewJTMessage()
	m.Body = fw.Exact(b)
	return m
}

// execLoc decodes a location body through one of the three carriers.
func execLoc(carrier string, body []byte) string {
	switch carrier {
	case "0200":
		t := &model.T0x0200{}
		if err := t.Parse(jtBody(body)); err != nil {
			return "err"
		}
		return "ok " + showLoc(&t.T0x0200LocationItem) + showAdds(&t.T0x0200AdditionDetails)
	case "0704":
		t := &model.T0x0704{}
		if err := t.Parse(jtBody(body)); err != nil {
			return "err"
		}
		var parts []string
		for i := range t.Items {
			parts = append(parts, showLoc(&t.Items[i].T0x0200LocationItem)+showAdds(&t.Items[i].T0x0200AdditionDetails))
		}
		return fmt.Sprintf("ok n=%d,t=%d,%s", t.Num, t.LocationType, strings.Join(parts, "|"))
	case "0801":
		t := &model.T0x0801{}
		if err := t.Parse(jtBody(body)); err != nil {
			return "err"
		}
		return fmt.Sprintf("ok id=%d,%d,%d,%d,%d,%s,pkg=%s", t.MultimediaID, t.MultimediaType, t.MultimediaFormatEncode, t.EventItemEncode, t.ChannelID,
			showLoc(&t.T0x0200LocationItem), fw.Hex(t.MultimediaPackage))
	}
	return "bad-op"
}

// ---- the standard, harness side (independent of the library and of the Lean files)

type stdLoc struct {
	alarm, status, lat, lon uint32
	alt, speed, dir         uint16
	time                    [6]byte
}

func (l stdLoc) bytes() []byte {
	b := []byte{byte(l.alarm >> 24), byte(l.alarm >> 16), byte(l.alarm >> 8), byte(l.alarm),
		byte(l.status >> 24), byte(l.status >> 16), byte(l.status >> 8), byte(l.status),
		byte(l.lat >> 24), byte(l.lat >> 16), byte(l.lat >> 8), byte(l.lat),
		byte(l.lon >> 24), byte(l.lon >> 16), byte(l.lon >> 8), byte(l.lon),
		byte(l.alt >> 8), byte(l.alt), byte(l.speed >> 8), byte(l.speed), byte(l.dir >> 8), byte(l.dir)}
	return append(b, l.time[:]...)
}

var stdAlarm = []string{"EmergencyAlarm", "OverSpeed", "FatigueDriving", "DangerousAlarm", "GNSSModuleFault", "GNSSAntennaFault",
	"GNSSAntennaShortCircuit", "TerminalPowerSupply", "TerminalPowerSupplyShutdown", "TerminalLCDFault", "TTSModuleFault", "CameraFault",
	"ICCardModuleFault", "OverSpeedAlarm", "FatigueDrivingAlarm", "ViolationDrivingAlarm", "TirePressureAlarm", "RightTurnBlindAreaAlarm",
	"DrivingTimeout", "OverTimeStop", "InOutArea", "InOutLine", "SectionDrivingTime", "LineDeviation", "VSSFault", "OilLevelAbnormality",
	"StealCar", "LaneDeviation", "LaneOffset", "CollisionAlarm", "SideSlipAlarm", "LaneOpeningAlarm"}
var stdStatus = map[int]string{0: "ACC", 1: "Location", 2: "South", 3: "East", 4: "Suspended", 5: "Encryption", 6: "EmergencyBrake", 7: "LaneOffset",
	10: "Oil", 11: "Electricity", 12: "VehicleDoor", 13: "FrontDoor", 14: "MiddleDoor", 15: "BackDoor", 16: "DriverDoor", 17: "CustomDoor",
	18: "UseGPS", 19: "UseBD", 20: "UseGLONASS", 21: "UseGalileo", 22: "VehicleRunning"}
var stdExtVeh = []string{"LowBeamSignal", "HighBeamSignal", "RightTurnSignal", "LeftTurnSignal", "BrakeSignal", "ReverseGearSignal", "FogLightSignal",
	"ClearanceLights", "HornSignal", "AirConditionerSignal", "NeutralSignal", "RetarderWork", "ABSWork", "HeaterWork", "ClutchStatus"}
var stdIO = []string{"DeepSleepStatus", "SleepStatus"}
var stdLens = map[int][]int{0x01: {4}, 0x02: {2}, 0x03: {2}, 0x04: {2}, 0x05: {30}, 0x06: {2}, 0x11: {1, 5}, 0x12: {6}, 0x13: {7}, 0x25: {4}, 0x2A: {2}, 0x2B: {4}, 0x30: {1}, 0x31: {1}}

func flagsStd(w uint32, names []string) []string {
	var out []string
	for bit, n := range names {
		if w&(1<<uint(bit)) != 0 {
			out = append(out, n)
		}
	}
	sort.Strings(out)
	return out
}
func flagsStdMap(w uint32, names map[int]string) []string {
	var out []string
	for bit, n := range names {
		if w&(1<<uint(bit)) != 0 {
			out = append(out, n)
		}
	}
	sort.Strings(out)
	return out
}

func bcdTimeStd(t [6]byte) string {
	d := func(b byte) string { return string([]byte{'0' + b>>4, '0' + b&0xf}) }
	return fmt.Sprintf("20%s-%s-%s_%s:%s:%s", d(t[0]), d(t[1]), d(t[2]), d(t[3]), d(t[4]), d(t[5]))
}

// wantLocNoCargo renders what the standard prescribes, leaving the two-bit load field open ("cargo=*").
func wantLoc(l stdLoc) string {
	return fmt.Sprintf("L(%d,%d,%d,%d,%d,%d,%d,%s,a=[%s],s=[%s],cargo=", l.alarm, l.status, l.lat, l.lon, l.alt, l.speed, l.dir, bcdTimeStd(l.time),
		strings.Join(flagsStd(l.alarm, stdAlarm), ","), strings.Join(flagsStdMap(l.status, stdStatus), ","))
}

type stdItem struct {
	id      int
	content []byte
}

func be(b []byte) uint64 {
	var v uint64
	for _, x := range b {
		v = v<<8 | uint64(x)
	}
	return v
}

// wantItem: value(s) the standard assigns to the content of a standard item.
func wantItem(it stdItem) string {
	c := it.content
	var vals, flags []string
	p := func(n string, v uint64) { vals = append(vals, fmt.Sprintf("%s=%d", n, v)) }
	switch it.id {
	case 0x01:
		p("Mile", be(c))
	case 0x02:
		p("Oil", be(c))
	case 0x03:
		p("Speed", be(c))
	case 0x04:
		p("ManualAlarm", be(c))
	case 0x05:
		for k, v := range c {
			if v != 0 {
				p(fmt.Sprintf("Tire%d", k), uint64(v))
			}
		}
	case 0x06:
		p("CarTemperature", be(c))
	case 0x11:
		p("LocationType", uint64(c[0]))
		if c[0] != 0 && len(c) == 5 {
			p("AreaID", be(c[1:5])) // table 28: type byte, then the 4-byte area id
		} else {
			p("AreaID", 0)
		}
	case 0x12:
		p("LocationType", uint64(c[0]))
		p("AreaID", be(c[1:5]))
		p("Direction", uint64(c[5]))
	case 0x13:
		p("RoadSectionID", be(c[0:4]))
		p("RoadSectionDrivingTimeSecond", be(c[4:6]))
		p("Result", uint64(c[6]))
	case 0x25:
		p("Value", be(c))
		flags = flagsStd(uint32(be(c)), stdExtVeh)
	case 0x2A:
		p("Value", be(c))
		flags = flagsStd(uint32(be(c)), stdIO)
	case 0x2B:
		p("Analog", be(c))
	case 0x30:
		p("WIFISignalStrength", uint64(c[0]))
	case 0x31:
		p("GNSSPositionNum", uint64(c[0]))
	}
	return fmt.Sprintf("%d:%d:%s:%s:%s", it.id, len(c), fw.Hex(c), strings.Join(vals, ","), strings.Join(flags, ","))
}

// wantAdds: last item per id wins (a map), ordered by id; ok=false if some standard item has an impossible length.
func wantAdds(items []stdItem) (string, bool) {
	last := map[int]stdItem{}
	for _, it := range items {
		if ls, std := stdLens[it.id]; std {
			good := false
			for _, l := range ls {
				if l == len(it.content) {
					good = true
				}
			}
			if !good {
				return "", false
			}
		}
		last[it.id] = it
	}
	var ids []int
	for id := range last {
		ids = append(ids, id)
	}
	sort.Ints(ids)
	var out []string
	for _, id := range ids {
		out = append(out, wantItem(last[id]))
	}
	return "A[" + strings.Join(out, ";") + "]", true
}

func itemsBytes(items []stdItem) []byte {
	var b []byte
	for _, it := range items {
		b = append(b, byte(it.id), byte(len(it.content)))
		b = append(b, it.content...)
	}
	return b
}

// eqModuloCargo compares an implementation rendering with the standard's, ignoring the digit after "cargo=".
func stripCargo(s string) string {
	for {
		i := strings.Index(s, "cargo=")
		if i < 0 || i+7 > len(s) {
			return s
		}
		s = s[:i] + "cargo*" + s[i+7:]
	}
}

func eqModuloCargo(got, want string) bool { return stripCargo(got) == stripCargo(want) }

func randStdLoc(r *fw.Rng) stdLoc {
	l := stdLoc{lat: uint32(r.U64()), lon: uint32(r.U64()), alt: uint16(r.U64()), speed: uint16(r.U64()), dir: uint16(r.U64())}
	word := func() uint32 {
		switch r.Intn(5) {
		case 0:
			return 1 << uint(r.Intn(32))
		case 1:
			return 1<<uint(r.Intn(32)) | 1<<uint(r.Intn(32))
		case 2:
			return 0
		case 3:
			return 0xffffffff ^ (1 << uint(r.Intn(32)))
		}
		return uint32(r.U64())
	}
	l.alarm, l.status = word(), word()
	for i := range l.time {
		l.time[i] = byte(r.Intn(10)<<4 | r.Intn(10))
	}
	if r.Chance(10) {
		l.time[r.Intn(6)] = byte(r.U64()) // non-BCD nibble: rendering is still defined ('0'+nibble)
	}
	return l
}

var stdIDs = []int{0x01, 0x02, 0x03, 0x04, 0x05, 0x06, 0x11, 0x12, 0x13, 0x25, 0x2A, 0x2B, 0x30, 0x31}

func randItems(r *fw.Rng, allowBad bool) []stdItem {
	n := r.Intn(6)
	var out []stdItem
	for i := 0; i < n; i++ {
		var it stdItem
		switch r.Intn(10) {
		case 0, 1: // unknown id
			it.id = r.Pick([]int{0x07, 0x0f, 0x14, 0x24, 0x26, 0x32, 0x64, 0xe1, 0xff, 0x00})
			it.content = r.Bytes(r.Intn(12))
		default:
			it.id = r.Pick(stdIDs)
			ls := stdLens[it.id]
			l := ls[r.Intn(len(ls))]
			if allowBad && r.Chance(12) {
				l = r.Pick([]int{0, 1, 2, 3, 4, 5, 6, 7, 8, 29, 30, 31})
			}
			it.content = r.Bytes(l)
			if (it.id == 0x25 || it.id == 0x2A) && len(it.content) > 0 && r.Chance(60) {
				for k := range it.content {
					it.content[k] = 0
				}
				it.content[len(it.content)-1-r.Intn(min(2, len(it.content)))] = 1 << uint(r.Intn(8))
			}
			if it.id == 0x11 && len(it.content) > 0 && r.Chance(40) {
				it.content[0] = 0
			}
		}
		out = append(out, it)
	}
	if len(out) > 1 && r.Chance(20) { // duplicate id
		d := out[r.Intn(len(out))]
		d.content = append([]byte{}, d.content...)
		if len(d.content) > 0 {
			d.content[len(d.content)-1] ^= 0x5a
		}
		out = append(out, d)
	}
	return out
}

func genC08(r *fw.Rng, tier string, emit func(fw.Case)) {
	n := 4000
	if tier == "thorough" {
		n = 80000
	}
	for i := 0; i < n; i++ {
		l := randStdLoc(r)
		items := randItems(r, true)
		body := append(l.bytes(), itemsBytes(items)...)
		emit(fw.Case{Op: "loc", Args: []string{"0200", fw.Hex(body)}})
		if i%4 == 0 { // 0x0704 batch of 1..3 items
			k := 1 + r.Intn(3)
			b := []byte{0, byte(k), byte(r.Intn(2))}
			for j := 0; j < k; j++ {
				lj := randStdLoc(r)
				ij := randItems(r, j == k-1 && r.Chance(20))
				x := append(lj.bytes(), itemsBytes(ij)...)
				b = append(b, byte(len(x)>>8), byte(len(x)))
				b = append(b, x...)
			}
			if r.Chance(10) { // announced count larger than the items present
				b[1] = byte(k + 1 + r.Intn(3))
			}
			emit(fw.Case{Op: "loc", Args: []string{"0704", fw.Hex(b)}})
		}
		if i%4 == 1 {
			b := r.Bytes(8)
			b = append(b, l.bytes()...)
			b = append(b, r.Bytes(r.Intn(20))...)
			emit(fw.Case{Op: "loc", Args: []string{"0801", fw.Hex(b)}})
		}
		if i%9 == 0 { // truncations of the base block / of the item list
			cut := r.Intn(len(body) + 1)
			emit(fw.Case{Op: "loc", Args: []string{"0200", fw.Hex(body[:cut])}})
		}
	}
	// every standard id x every length 0..8,29,30,31 with random content, alone behind a base block
	base := randStdLoc(r).bytes()
	ids := append(append([]int{}, stdIDs...), 0x07, 0x64, 0xff)
	for _, id := range ids {
		for _, l := range []int{0, 1, 2, 3, 4, 5, 6, 7, 8, 29, 30, 31} {
			for rep := 0; rep < 3; rep++ {
				c := r.Bytes(l)
				if rep == 0 && l > 0 {
					c[0] = 0
				}
				emit(fw.Case{Op: "loc", Args: []string{"0200", fw.Hex(append(append([]byte{}, base...), itemsBytes([]stdItem{{id, c}})...))}})
			}
		}
	}
	// every item id 0..255 (standard, reserved, vendor) BETWEEN two standard items: an id must not end or redirect the walk
	for id := 0; id < 256; id++ {
		for rep := 0; rep < 2; rep++ {
			var c []byte
			if ls, ok := stdLens[id]; ok {
				c = r.Bytes(ls[r.Intn(len(ls))])
			} else {
				c = r.Bytes(r.Intn(10))
			}
			items := []stdItem{{0x01, r.Bytes(4)}, {id, c}, {0x30, r.Bytes(1)}, {0x31, r.Bytes(1)}}
			if rep == 1 {
				items = []stdItem{{id, c}, {0x02, r.Bytes(2)}}
			}
			emit(fw.Case{Op: "loc", Args: []string{"0200", fw.Hex(append(append([]byte{}, base...), itemsBytes(items)...))}})
		}
	}
	// well-known 16-bit marker values (file signatures, start codes, extremes, framing bytes) at the first offsets of the
	// location block and of the payload, for every media type / format of 0x0801 and at the head of 0x0200 / 0x0704 items:
	// the layout is fixed, no byte pattern may switch the decoder to another reading
	dict := [][]byte{{0xFF, 0xD8}, {0xFF, 0xD9}, {0x89, 0x50}, {0x47, 0x49}, {0x42, 0x4D}, {0x52, 0x49}, {0x49, 0x44}, {0xFF, 0xF1}, {0xFF, 0xFB}, {0x00, 0x00, 0x00, 0x01},
		{0x00, 0x00, 0x01}, {0x1A, 0x45}, {0x66, 0x74}, {0x00, 0x00}, {0xFF, 0xFF}, {0x7E, 0x7E}, {0x7D, 0x02}, {0x80, 0x00}, {0x30, 0x31}}
	offs := []int{8, 9, 10, 12, 36}
	if tier == "thorough" {
		offs = nil
		for o := 0; o <= 38; o++ {
			offs = append(offs, o)
		}
	}
	for mt := 0; mt < 3; mt++ {
		for mf := 0; mf < 5; mf++ {
			for _, d := range dict {
				for _, o := range offs {
					b := r.Bytes(4)
					b = append(b, byte(mt), byte(mf), byte(r.Intn(8)), byte(1+r.Intn(4)))
					b = append(b, randStdLoc(r).bytes()...)
					b = append(b, r.Bytes(6+r.Intn(10))...)
					copy(b[o:], d)
					emit(fw.Case{Op: "loc", Args: []string{"0801", fw.Hex(b)}})
				}
			}
		}
	}
	for _, d := range dict {
		for o := 0; o <= 4; o++ {
			l := randStdLoc(r).bytes()
			copy(l[o:], d)
			x := append(append([]byte{}, l...), itemsBytes([]stdItem{{0x01, r.Bytes(4)}})...)
			emit(fw.Case{Op: "loc", Args: []string{"0200", fw.Hex(x)}})
			emit(fw.Case{Op: "loc", Args: []string{"0704", fw.Hex(append([]byte{0, 1, 0, byte(len(x) >> 8), byte(len(x))}, x...))}})
		}
	}
	// all single bits and all pairs of bits of the alarm and the status word
	for a := 0; a < 32; a++ {
		for b := a; b < 32; b++ {
			w := uint32(1<<uint(a) | 1<<uint(b))
			emit(fw.Case{Op: "loc", Args: []string{"0200", fw.Hex(stdLoc{alarm: w}.bytes())}})
			emit(fw.Case{Op: "loc", Args: []string{"0200", fw.Hex(stdLoc{status: w}.bytes())}})
			if tier == "thorough" || b == a {
				emit(fw.Case{Op: "loc", Args: []string{"0200", fw.Hex(append(stdLoc{}.bytes(), 0x25, 4, byte(w>>24), byte(w>>16), byte(w>>8), byte(w)))}})
			}
		}
	}
}

// parseStdItems re-reads the TLV list following the standard; ok=false when it is not a well-formed list.
func parseStdItems(b []byte) ([]stdItem, bool) {
	var out []stdItem
	for len(b) > 0 {
		if len(b) < 2 || len(b) < 2+int(b[1]) {
			return nil, false
		}
		out = append(out, stdItem{int(b[0]), b[2 : 2+int(b[1])]})
		b = b[2+int(b[1]):]
	}
	return out, true
}

func wantLocBody(b []byte) (string, bool) {
	if len(b) < 28 {
		return "", false
	}
	var l stdLoc
	l.alarm, l.status, l.lat, l.lon = uint32(be(b[0:4])), uint32(be(b[4:8])), uint32(be(b[8:12])), uint32(be(b[12:16]))
	l.alt, l.speed, l.dir = uint16(be(b[16:18])), uint16(be(b[18:20])), uint16(be(b[20:22]))
	copy(l.time[:], b[22:28])
	items, ok := parseStdItems(b[28:])
	if !ok {
		return "", false
	}
	a, ok := wantAdds(items)
	if !ok {
		return "", false
	}
	return wantLoc(l) + "0)" + a, true
}

// oracleC08 compares the implementation with the standard's reading of the same bytes.
func oracleC08(c fw.Case) *fw.OracleFailure {
	if c.Op != "loc" {
		return nil
	}
	body := fw.UnHex(c.Args[1])
	got := fw.SafeExec(func() string { return execLoc(c.Args[0], body) })
	if got == "panic" {
		return &fw.OracleFailure{Sig: "T0x" + c.Args[0] + ".Parse/panic", Msg: "location decoder panicked"}
	}
	switch c.Args[0] {
	case "0200":
		want, ok := wantLocBody(body)
		if !ok {
			if got != "err" {
				return &fw.OracleFailure{Sig: "T0x0200.Parse/accepted-malformed", Msg: "a body that is too short, has a malformed item list or a standard item of impossible length was accepted: " + trunc(got, 200)}
			}
			return nil
		}
		if got == "err" {
			return &fw.OracleFailure{Sig: "T0x0200.Parse/rejected-valid", Msg: "want " + trunc(want, 300)}
		}
		if !eqModuloCargo(got, "ok "+want) {
			return &fw.OracleFailure{Sig: "T0x0200.Parse/value" + diffTag(got, "ok "+want), Msg: "standard: " + trunc(want, 400) + " implementation: " + trunc(got, 400)}
		}
	case "0704":
		if len(body) < 3 {
			return nil
		}
		n := int(be(body[0:2]))
		rest := body[3:]
		var parts []string
		valid := true
		for i := 0; i < n && valid; i++ {
			if len(rest) < 2 || len(rest) < 2+int(be(rest[0:2])) {
				valid = false
				break
			}
			l := int(be(rest[0:2]))
			w, ok := wantLocBody(rest[2 : 2+l])
			if !ok {
				valid = false
				break
			}
			parts = append(parts, w)
			rest = rest[2+l:]
		}
		if !valid {
			if got != "err" {
				return &fw.OracleFailure{Sig: "T0x0704.Parse/accepted-malformed", Msg: trunc(got, 200)}
			}
			return nil
		}
		want := fmt.Sprintf("ok n=%d,t=%d,%s", n, body[2], strings.Join(parts, "|"))
		if got == "err" {
			return &fw.OracleFailure{Sig: "T0x0704.Parse/rejected-valid", Msg: "want " + trunc(want, 300)}
		}
		if !eqModuloCargo(got, want) {
			return &fw.OracleFailure{Sig: "T0x0704.Parse/value" + diffTag(got, want), Msg: "standard: " + trunc(want, 400) + " implementation: " + trunc(got, 400)}
		}
	case "0801":
		if len(body) < 36 {
			if got != "err" {
				return &fw.OracleFailure{Sig: "T0x0801.Parse/accepted-malformed", Msg: trunc(got, 200)}
			}
			return nil
		}
		var l stdLoc
		b := body[8:36]
		l.alarm, l.status, l.lat, l.lon = uint32(be(b[0:4])), uint32(be(b[4:8])), uint32(be(b[8:12])), uint32(be(b[12:16]))
		l.alt, l.speed, l.dir = uint16(be(b[16:18])), uint16(be(b[18:20])), uint16(be(b[20:22]))
		copy(l.time[:], b[22:28])
		want := fmt.Sprintf("ok id=%d,%d,%d,%d,%d,%s0),pkg=%s", be(body[0:4]), body[4], body[5], body[6], body[7], wantLoc(l), fw.Hex(body[36:]))
		if !eqModuloCargo(got, want) {
			return &fw.OracleFailure{Sig: "T0x0801.Parse/value" + diffTag(got, want), Msg: "standard: " + trunc(want, 400) + " implementation: " + trunc(got, 400)}
		}
	}
	return nil
}

// diffTag names the first item/field at which two renderings differ (stable, short: used in signatures).
func diffTag(got, want string) string {
	got, want = stripCargo(got), stripCargo(want)
	i := 0
	for i < len(got) && i < len(want) && got[i] == want[i] {
		i++
	}
	// walk back to the start of the current "name=" or "id:" token
	j := i
	for j > 0 && !strings.ContainsRune(",;[(|", rune(want[min(j, len(want))-1])) {
		j--
	}
	tok := want[min(j, len(want)):]
	if k := strings.IndexAny(tok, "=:"); k > 0 && k < 40 {
		tok = tok[:k]
	} else if len(tok) > 12 {
		tok = tok[:12]
	}
	// the item id the token belongs to, if inside A[...]
	if a := strings.LastIndex(want[:min(i, len(want))], ";"); a >= 0 || strings.Contains(want[:min(i, len(want))], "A[") {
		st := strings.LastIndexAny(want[:min(i, len(want))], ";[")
		if st >= 0 {
			seg := want[st+1:]
			if k := strings.Index(seg, ":"); k > 0 && k < 4 {
				return "/item" + seg[:k] + "/" + tok
			}
		}
	}
	return "/" + tok
}

var C08 = &fw.Prop{ID: "C08", Gen: genC08, Oracle: oracleC08,
	Exec: func(c fw.Case) string {
		if c.Op != "loc" {
			return "bad-op"
		}
		return execLoc(c.Args[0], fw.UnHex(c.Args[1]))
	},
	Class: func(c fw.Case, res string) string {
		cl := "loc" + c.Args[0] + ":" + strings.SplitN(res, " ", 2)[0]
		if strings.Contains(res, "A[") && !strings.Contains(res, "A[]") {
			cl += ":items"
		}
		return cl
	}}
