package props

import (
	"bytes"
	"fmt"
	"net"
	"strconv"
	"strings"
	"sync"
	"sync/atomic"
	"time"

	"github.com/cuteLittleDevil/go-jt808/service"
	"verif/harness/internal/frames"
	"verif/harness/internal/fw"
)

// ---- in-process server with a recording TerminalEventer --------------------------------------

type convEvent struct {
	kind string // join leave read write notsupported
	id   uint16
	ser  uint16
	data []byte // write: ExtensionFields.PlatformData as seen in the callback; read: TerminalData
	key  string
}

type convRecorder struct {
	mu        sync.Mutex
	evs       []convEvent
	slowWrite time.Duration // delay inside the write callback: lets the reader run ahead of the writer
}

func (r *convRecorder) add(e convEvent) {
	r.mu.Lock()
	r.evs = append(r.evs, e)
	r.mu.Unlock()
}
func (r *convRecorder) snapshot() []convEvent {
	r.mu.Lock()
	defer r.mu.Unlock()
	return append([]convEvent{}, r.evs...)
}
func (r *convRecorder) OnJoinEvent(m *service.Message, key string, err error) {
	r.add(convEvent{kind: "join", key: key})
}
func (r *convRecorder) OnLeaveEvent(key string) { r.add(convEvent{kind: "leave", key: key}) }
func (r *convRecorder) OnNotSupportedEvent(m *service.Message) {
	r.add(convEvent{kind: "notsupported", id: m.JTMessage.Header.ID, ser: m.JTMessage.Header.SerialNumber})
}
func (r *convRecorder) OnReadExecutionEvent(m *service.Message) {
	r.add(convEvent{kind: "read", id: m.JTMessage.Header.ID, ser: m.JTMessage.Header.SerialNumber, data: append([]byte{}, m.ExtensionFields.TerminalData...)})
}
func (r *convRecorder) OnWriteExecutionEvent(m service.Message) {
	if r.slowWrite > 0 {
		time.Sleep(r.slowWrite)
	}
	r.add(convEvent{kind: "write", id: m.JTMessage.Header.ID, ser: m.JTMessage.Header.SerialNumber, data: append([]byte{}, m.ExtensionFields.PlatformData...)})
}

var (
	convOnce   sync.Once
	convAddr   string
	convMu     sync.Mutex // one conversation at a time: the recorder factory hands out `convCur`
	convCur    *convRecorder
	convCurAny service.TerminalEventer // set by checks that install their own recorder type
	convCurMu  sync.Mutex
	convServer *service.GoJT808
)

func convStart() {
	convOnce.Do(func() {
		l, err := net.Listen("tcp", "127.0.0.1:0")
		if err != nil {
			panic(err)
		}
		convAddr = l.Addr().String()
		l.Close()
		convServer = service.New(
			service.WithHostPorts(convAddr),
			service.WithCustomTerminalEventer(func() service.TerminalEventer {
				convCurMu.Lock()
				defer convCurMu.Unlock()
				if convCurAny != nil {
					return convCurAny
				}
				if convCur == nil {
					return &convRecorder{}
				}
				return convCur
			}),
		)
		go convServer.Run()
		for i := 0; i < 200; i++ {
			convCurMu.Lock()
			convCur = nil
			convCurMu.Unlock()
			c, err := net.DialTimeout("tcp", convAddr, 200*time.Millisecond)
			if err == nil {
				c.Close()
				time.Sleep(20 * time.Millisecond)
				return
			}
			time.Sleep(10 * time.Millisecond)
		}
		panic("in-process JT808 server did not start")
	})
}

func dialConv() (net.Conn, error) { return net.DialTimeout("tcp", convAddr, 2*time.Second) }

// splitFrames extracts complete frames (7e..7e) from buf, returns them and the rest.
func splitFrames(buf []byte) ([][]byte, []byte) {
	var out [][]byte
	for {
		i := bytes.IndexByte(buf, 0x7e)
		if i < 0 {
			return out, nil
		}
		j := bytes.IndexByte(buf[i+1:], 0x7e)
		if j < 0 {
			return out, buf[i:]
		}
		out = append(out, append([]byte{}, buf[i:i+j+2]...))
		buf = buf[i+j+2:]
	}
}

type convResult struct {
	replies [][]byte
	events  []convEvent
	closed  bool
}

// runConv plays one conversation: each write is sent, then the harness waits until `expect[i]` replies
// (known from the harness-side specification) have arrived before the next write, so that read boundaries
// are deterministic. A wait that times out is not an error here: the shortfall shows in the result.
func runConv(writes [][]byte, expect []int) (res convResult) {
	return runConvOpt(writes, expect, false)
}

// runConvOpt with race=true sends all writes back to back (no waiting in between) while the write callback
// is slow, so that the reader goroutine runs ahead of the writer; replies are collected at the end.
var convStarved atomic.Int32
var convTail atomic.Int32

func runConvOpt(writes [][]byte, expect []int, race bool) (res convResult) {
	convStart()
	convMu.Lock()
	defer convMu.Unlock()
	rec := &convRecorder{}
	if race {
		rec.slowWrite = 300 * time.Microsecond
		tot := 0
		for _, e := range expect {
			tot += e
		}
		expect = make([]int, len(expect))
		if len(expect) > 0 {
			expect[len(expect)-1] = tot
		}
	}
	convCurMu.Lock()
	convCur = rec
	convCurMu.Unlock()
	c, err := net.DialTimeout("tcp", convAddr, 2*time.Second)
	if err != nil {
		res.closed = true
		return res
	}
	defer func() {
		// every third conversation ends in the middle of a frame (a terminal that loses power while sending): what one
		// connection leaves unfinished must not be seen by the connections that come after it
		if convTail.Add(1)%3 == 0 && !res.closed {
			_, _ = c.Write([]byte{0x7e, 0x02, 0x00, 0x00, 0x1c, 0x01, 0x23, 0x45})
			time.Sleep(3 * time.Millisecond)
		}
		c.Close()
		// wait for the leave event so that the phone key is free again for the next conversation
		for i := 0; i < 400; i++ {
			left := false
			for _, e := range rec.snapshot() {
				if e.kind == "leave" {
					left = true
				}
			}
			if left {
				break
			}
			time.Sleep(time.Millisecond)
		}
		res.events = rec.snapshot()
	}()
	var rest []byte
	buf := make([]byte, 65536)
	total := 0
	for i, w := range writes {
		if _, err := c.Write(w); err != nil {
			res.closed = true
			return res
		}
		total += expect[i]
		if race && i+1 < len(writes) {
			time.Sleep(50 * time.Microsecond) // separate reads, but do not wait for the answers
			continue
		}
		// a reply that does not come is waited for 5 s; once that has happened in a few conversations of this run (the
		// server demonstrably drops replies, every further case would cost the full wait) the wait shrinks
		wait := 5 * time.Second
		if convStarved.Load() >= 3 {
			wait = 400 * time.Millisecond
		}
		if convStarved.Load() >= 30 { // the server answers (almost) nothing any more: the verdict is clear, finish the run
			wait = 25 * time.Millisecond
		}
		deadline := time.Now().Add(wait)
		quiet := 15 * time.Millisecond // also linger a little for replies that should NOT come
		for {
			if len(res.replies) >= total {
				_ = c.SetReadDeadline(time.Now().Add(quiet))
			} else {
				_ = c.SetReadDeadline(deadline)
			}
			n, err := c.Read(buf)
			if n > 0 {
				var fs [][]byte
				fs, rest = splitFrames(append(rest, buf[:n]...))
				res.replies = append(res.replies, fs...)
			}
			if err != nil {
				if ne, ok := err.(net.Error); ok && ne.Timeout() {
					if len(res.replies) < total {
						convStarved.Add(1)
					}
					break
				}
				res.closed = true
				return res
			}
			if len(res.replies) >= total && quiet > 2*time.Millisecond {
				quiet = 2 * time.Millisecond
			}
		}
	}
	return res
}

// ---- harness-side specification of the automatic replies -------------------------------------

var specReply = map[uint16][2]int{ // id -> {answered (1/0), reply id}
	0x0001: {0, 0}, 0x0002: {1, 0x8001}, 0x0100: {1, 0x8100}, 0x0102: {1, 0x8001}, 0x0104: {0, 0}, 0x0200: {1, 0x8001},
	0x0704: {1, 0x8001}, 0x0800: {1, 0x8001}, 0x0801: {1, 0x8800}, 0x0805: {0, 0}, 0x1003: {1, 0x8001}, 0x1005: {1, 0x8001},
	0x1205: {0, 0}, 0x1206: {0, 0}, 0x1210: {1, 0x8001}, 0x1211: {1, 0x8001}, 0x1212: {1, 0x9212},
}

type specReplyT struct {
	id     uint16 // reply message id
	phone  []byte // BCD phone of the request
	v2019  bool
	check  func(body []byte) string // "" if the reply body is what the property prescribes
	reqID  uint16
	reqSer uint16
}

// specConv computes, per write, the replies the property prescribes (sub-packages count once, when complete).
func specConv(ws [][]finfo) (perWrite [][]specReplyT) {
	type tr struct {
		n     int
		slots map[int][]byte
	}
	trs := map[uint16]*tr{}
	for _, w := range ws {
		var out, late []specReplyT
		for _, f := range w {
			f := f
			complete := !f.h.Frag || f.h.Sum == 0
			body := f.body
			var isLate bool
			if f.h.Frag && f.h.Sum > 0 {
				if f.h.No == 1 {
					trs[f.h.ID] = &tr{n: int(f.h.Sum), slots: map[int][]byte{}}
				}
				t := trs[f.h.ID]
				// (a package that announces another total than the transfer under way is not one of its packages: a
				// transfer is complete when all of ITS packages are there — thorough sweep seed 2 had a conversation in which
				// package 2/3 of a second upload followed package 1/2 of an abandoned one)
				if t != nil && f.h.No >= 1 && int(f.h.No) <= t.n && int(f.h.Sum) == t.n {
					t.slots[int(f.h.No)] = f.body
					if len(t.slots) == t.n {
						complete, isLate = true, true
						body = nil
						for i := 1; i <= t.n; i++ {
							body = append(body, t.slots[i]...)
						}
						delete(trs, f.h.ID)
					}
				}
			}
			if !complete {
				continue
			}
			sr, ok := specReply[f.h.ID]
			if !ok || sr[0] == 0 {
				continue
			}
			r := specReplyT{id: uint16(sr[1]), phone: f.h.Phone, v2019: f.h.V2019, reqID: f.h.ID, reqSer: f.h.Serial}
			phone := phoneStr(f.h.Phone)
			switch f.h.ID {
			case 0x0100:
				r.check = func(b []byte) string {
					if len(b) < 3 || be(b[0:2]) != uint64(f.h.Serial) || b[2] != 0 || string(b[3:]) != phone {
						return fmt.Sprintf("registration response must carry serial %d, result 0 and the phone %s as authentication code, got %x", f.h.Serial, phone, b)
					}
					return ""
				}
			case 0x0102:
				code := body
				if f.h.V2019 {
					if len(body) < 36 || len(body) < 1+int(body[0])+35 {
						continue // by design: logged and not answered
					}
					code = body[1 : 1+int(body[0])]
				}
				want := byte(1)
				if string(code) == phone {
					want = 0
				}
				r.check = func(b []byte) string {
					if len(b) != 5 || be(b[0:2]) != uint64(f.h.Serial) || be(b[2:4]) != 0x0102 || b[4] != want {
						return fmt.Sprintf("authentication must be answered with serial %d, id 0x0102, result %d, got %x", f.h.Serial, want, b)
					}
					return ""
				}
			case 0x0801:
				if len(body) < 36 {
					r.check = func(b []byte) string { return "" } // multimedia id claimed only for bodies >= 36
				} else {
					id := be(body[0:4])
					r.check = func(b []byte) string {
						if len(b) < 4 || be(b[0:4]) != id {
							return fmt.Sprintf("multimedia response must carry multimedia id %d, got %x", id, b)
						}
						return ""
					}
				}
			case 0x1003, 0x1212:
				r.check = func(b []byte) string { return "" } // only existence, type, addressing, order, numbering
			default:
				r.check = func(b []byte) string {
					if len(b) != 5 || be(b[0:2]) != uint64(f.h.Serial) || be(b[2:4]) != uint64(f.h.ID) || b[4] != 0 {
						return fmt.Sprintf("general response must echo serial %d and id 0x%04x with result 0, got %x", f.h.Serial, f.h.ID, b)
					}
					return ""
				}
			}
			if isLate {
				late = append(late, r) // reassembled messages are appended after the frames of the same read
			} else {
				out = append(out, r)
			}
		}
		perWrite = append(perWrite, append(out, late...))
	}
	return
}

// ---- the property ----------------------------------------------------------------------------

func decodeConv(s string) (writes [][]byte, ws [][]finfo, ok bool) {
	ok = true
	for _, c := range decodeSession(s) {
		writes = append(writes, c.data)
		parts, good := frames.SplitStream(c.data)
		if !good {
			ok = false
			ws = append(ws, nil)
			continue
		}
		var fs []finfo
		for _, p := range parts {
			h, body, g := frames.Parse(p)
			if !g {
				ok = false
			}
			fs = append(fs, finfo{h: h, body: body, bytes: p})
		}
		ws = append(ws, fs)
	}
	return
}

// runConvPieces sends the pieces one write each (tiny pauses so that the server mostly sees them as separate reads)
// and then reads until `total` replies have arrived (plus a short linger for replies that should not come).
func runConvPieces(pieces [][]byte, total int) (res convResult) {
	convStart()
	convMu.Lock()
	defer convMu.Unlock()
	rec := &convRecorder{}
	convCurMu.Lock()
	convCur = rec
	convCurMu.Unlock()
	c, err := net.DialTimeout("tcp", convAddr, 2*time.Second)
	if err != nil {
		res.closed = true
		return res
	}
	defer func() {
		c.Close()
		for i := 0; i < 400; i++ {
			left := false
			for _, e := range rec.snapshot() {
				if e.kind == "leave" {
					left = true
				}
			}
			if left {
				break
			}
			time.Sleep(time.Millisecond)
		}
		res.events = rec.snapshot()
	}()
	for _, p := range pieces {
		if _, err := c.Write(p); err != nil {
			res.closed = true
			return res
		}
		if len(pieces) < 200 {
			time.Sleep(150 * time.Microsecond)
		}
	}
	var rest []byte
	buf := make([]byte, 65536)
	deadline := time.Now().Add(5 * time.Second)
	for {
		if len(res.replies) >= total {
			_ = c.SetReadDeadline(time.Now().Add(15 * time.Millisecond))
		} else {
			_ = c.SetReadDeadline(deadline)
		}
		n, err := c.Read(buf)
		if n > 0 {
			var fs [][]byte
			fs, rest = splitFrames(append(rest, buf[:n]...))
			res.replies = append(res.replies, fs...)
		}
		if err != nil {
			if ne, ok := err.(net.Error); ok && ne.Timeout() {
				return res
			}
			res.closed = true
			return res
		}
	}
}

// execConvPar: `conns` connections at the same time, each sending `rounds` requests whose reply depends on the body
// (authentication: right or wrong code for ITS phone; one-piece multimedia upload: ITS multimedia id) and checking
// every reply against its own request. Result "replies=<n> wrong=<k>".
func execConvPar(c fw.Case) string {
	conns, _ := strconv.Atoi(c.Args[0])
	rounds, _ := strconv.Atoi(c.Args[1])
	seed, _ := strconv.ParseUint(c.Args[2], 10, 64)
	convStart()
	convMu.Lock()
	defer convMu.Unlock()
	convCurMu.Lock()
	convCur = &convRecorder{}
	convCurMu.Unlock()
	var wg sync.WaitGroup
	var mu sync.Mutex
	total, wrong := 0, 0
	for k := 0; k < conns; k++ {
		wg.Add(1)
		go func(k int) {
			defer wg.Done()
			r := fw.NewRng(seed*7919 + uint64(k))
			phone := []byte{0x05, 0x55, 0x00, 0x00, byte(k / 100), byte(k%100/10<<4 | k%10)}
			ps := phoneStr(phone)
			cn, err := dialConv()
			if err != nil {
				mu.Lock()
				wrong++
				mu.Unlock()
				return
			}
			defer cn.Close()
			// all requests are written back to back (the writers of the connections must overlap), then the replies
			// are read and checked in order
			var checks []func(b []byte) bool
			var out []byte
			for j := 0; j < rounds; j++ {
				h := frames.H{Phone: phone, Serial: uint16(1000*k + j)}
				var body []byte
				if r.Bool() {
					h.ID = 0x0102
					want := byte(0)
					body = []byte(ps)
					if r.Bool() {
						body = []byte(strings.Repeat("9", len(ps)))
						want = 1
					}
					ser := h.Serial
					checks = append(checks, func(b []byte) bool {
						return len(b) == 5 && be(b[0:2]) == uint64(ser) && be(b[2:4]) == 0x0102 && b[4] == want
					})
				} else {
					h.ID = 0x0801
					id := []byte{byte(k), byte(j >> 8), byte(j), byte(r.Intn(256))}
					body = append(append([]byte{}, id...), make([]byte, 32)...)
					checks = append(checks, func(b []byte) bool { return len(b) >= 4 && bytes.Equal(b[0:4], id) })
				}
				out = append(out, frames.Build(h, body)...)
			}
			go func() {
				for len(out) > 0 {
					n := 700
					if n > len(out) {
						n = len(out)
					}
					if _, err := cn.Write(out[:n]); err != nil {
						return
					}
					out = out[n:]
				}
			}()
			buf := make([]byte, 65536)
			var rest []byte
			var replies [][]byte
			_ = cn.SetReadDeadline(time.Now().Add(10 * time.Second))
			for len(replies) < rounds {
				n, err := cn.Read(buf)
				if n > 0 {
					var fs [][]byte
					fs, rest = splitFrames(append(rest, buf[:n]...))
					replies = append(replies, fs...)
				}
				if err != nil {
					break
				}
			}
			mu.Lock()
			for j := 0; j < rounds; j++ {
				total++
				if j >= len(replies) {
					wrong++
					continue
				}
				_, b, ok := frames.Parse(replies[j])
				if !ok || !checks[j](b) {
					wrong++
				}
			}
			mu.Unlock()
		}(k)
	}
	wg.Wait()
	return fmt.Sprintf("replies=%d wrong=%d", total, wrong)
}

func execConv(c fw.Case) string {
	if c.Op == "convpar" {
		return execConvPar(c)
	}
	writes, ws, ok := decodeConv(c.Args[0])
	expect := make([]int, len(writes))
	if ok {
		for i, rs := range specConv(ws) {
			expect[i] = len(rs)
		}
	}
	if c.Op == "convcut" {
		// the same byte stream, delivered in pieces cut at random places (inside headers, bodies, escape pairs,
		// right before and after delimiters); replies are collected at the end
		total := 0
		for _, e := range expect {
			total += e
		}
		var stream []byte
		for _, w := range writes {
			stream = append(stream, w...)
		}
		seed, _ := strconv.ParseUint(c.Args[1], 10, 64)
		pieces := cutStream(stream, seed)
		exp := make([]int, len(pieces))
		if len(exp) > 0 {
			exp[len(exp)-1] = total
		}
		res := runConvPieces(pieces, total)
		var hs []string
		for _, r := range res.replies {
			hs = append(hs, fw.Hex(r))
		}
		if res.closed {
			return "[" + strings.Join(hs, ",") + "] closed"
		}
		return fmt.Sprintf("[%s] next=%d", strings.Join(hs, ","), len(res.replies)%65536)
	}
	res := runConvOpt(writes, expect, c.Op == "convrace")
	var hs []string
	for _, r := range res.replies {
		hs = append(hs, fw.Hex(r))
	}
	if res.closed {
		return "[" + strings.Join(hs, ",") + "] closed"
	}
	next := len(res.replies) % 65536
	return fmt.Sprintf("[%s] next=%d", strings.Join(hs, ","), next)
}

func oracleC06(c fw.Case) *fw.OracleFailure {
	if c.Op != "conv" && c.Op != "convrace" {
		return nil // convcut: the reply list is fixed by the specification; compared with the model (functional op)
	}
	writes, ws, ok := decodeConv(c.Args[0])
	if !ok {
		return nil
	}
	spec := specConv(ws)
	expect := make([]int, len(writes))
	var all []specReplyT
	for i, rs := range spec {
		expect[i] = len(rs)
		all = append(all, rs...)
	}
	res := runConvOpt(writes, expect, c.Op == "convrace")
	if res.closed {
		return &fw.OracleFailure{Sig: "conn/closed", Msg: "the server closed the connection during a conversation of valid frames"}
	}
	if len(res.replies) != len(all) {
		return &fw.OracleFailure{Sig: fmt.Sprintf("reply/count-%s", cmpWord(len(res.replies), len(all))), Msg: fmt.Sprintf("%d replies received, %d prescribed (exactly one per complete request that requires an answer)", len(res.replies), len(all))}
	}
	for k, raw := range res.replies {
		h, body, good := frames.Parse(raw)
		if !good {
			return &fw.OracleFailure{Sig: "reply/undecodable", Msg: fmt.Sprintf("reply %d is not a well-formed frame: %x", k, raw)}
		}
		w := all[k]
		if h.Serial != uint16(k) {
			return &fw.OracleFailure{Sig: "reply/platform-serial", Msg: fmt.Sprintf("frame %d written on the connection carries platform serial %d", k, h.Serial)}
		}
		if h.ID != w.id {
			return &fw.OracleFailure{Sig: fmt.Sprintf("reply/type/0x%04x", w.reqID), Msg: fmt.Sprintf("reply %d to 0x%04x has id 0x%04x, prescribed 0x%04x (order of replies = order of requests)", k, w.reqID, h.ID, w.id)}
		}
		if !bytes.Equal(h.Phone, w.phone) || h.V2019 != w.v2019 {
			return &fw.OracleFailure{Sig: "reply/addressing", Msg: fmt.Sprintf("reply %d addressed to %x (2019=%v), request came from %x (2019=%v)", k, h.Phone, h.V2019, w.phone, w.v2019)}
		}
		if msg := w.check(body); msg != "" {
			return &fw.OracleFailure{Sig: fmt.Sprintf("reply/body/0x%04x", w.reqID), Msg: fmt.Sprintf("reply %d: %s", k, msg)}
		}
	}
	// callbacks: every handled complete message read exactly once before its reply is written; every reply
	// reported to the write callback exactly once with the bytes actually sent
	var reads, writesEv []convEvent
	for _, e := range res.events {
		switch e.kind {
		case "read":
			reads = append(reads, e)
		case "write":
			writesEv = append(writesEv, e)
		}
	}
	if len(writesEv) != len(res.replies) {
		return &fw.OracleFailure{Sig: "callback/write-count", Msg: fmt.Sprintf("%d write callbacks for %d replies", len(writesEv), len(res.replies))}
	}
	for k := range writesEv {
		if !bytes.Equal(writesEv[k].data, res.replies[k]) {
			return &fw.OracleFailure{Sig: "callback/write-bytes", Msg: fmt.Sprintf("write callback %d reported %x, the socket carried %x", k, writesEv[k].data, res.replies[k])}
		}
	}
	// order: the k-th write event must be preceded by a read event of the same request (id, serial)
	pos := map[string]int{}
	for i, e := range res.events {
		if e.kind == "read" {
			key := fmt.Sprintf("%d/%d", e.id, e.ser)
			if _, dup := pos[key]; !dup {
				pos[key] = i
			}
		}
	}
	widx := 0
	for i, e := range res.events {
		if e.kind != "write" {
			continue
		}
		w := all[widx]
		widx++
		_ = w
		p, seen := pos[fmt.Sprintf("%d/%d", e.id, e.ser)]
		if !seen || p > i {
			return &fw.OracleFailure{Sig: "callback/read-before-write", Msg: fmt.Sprintf("reply to 0x%04x/%d was written before (or without) its read callback", e.id, e.ser)}
		}
	}
	return nil
}

func cmpWord(a, b int) string {
	if a < b {
		return "missing"
	}
	return "extra"
}

var c06IDs = []int{0x0001, 0x0002, 0x0100, 0x0102, 0x0104, 0x0200, 0x0704, 0x0800, 0x0801, 0x0805, 0x1003, 0x1005, 0x1205, 0x1206, 0x1210, 0x1211, 0x1212,
	0x0003, 0x0900, 0x0701, 0x1234, 0x7e7e}

func c06Frame(r *fw.Rng, phone []byte, v2019 bool) finfo {
	h := frames.H{ID: uint16(r.Pick(c06IDs)), V2019: v2019, Phone: phone, Serial: frames.RandU16(r), Encrypt: r.Chance(10)}
	var body []byte
	phoneS := phoneStr(phone)
	switch h.ID {
	case 0x0102:
		code := []byte(phoneS)
		if r.Chance(50) {
			code = []byte(fmt.Sprintf("%d", r.Intn(1000000)))
		}
		if r.Chance(10) {
			code = append(code, 0)
		}
		if v2019 {
			if r.Chance(15) {
				body = r.Bytes(r.Intn(36)) // too short: not answered
			} else {
				if r.Chance(10) {
					code = r.Bytes(240 + r.Intn(16))
				}
				body = append([]byte{byte(len(code))}, code...)
				body = append(body, r.Bytes(15+20+r.Intn(3))...)
			}
		} else {
			body = code
		}
	case 0x0801:
		if r.Chance(25) {
			body = r.Bytes(r.Intn(36))
		} else {
			body = r.Bytes(36 + r.Intn(40))
		}
	case 0x1212, 0x1211:
		name := r.Bytes(r.Intn(12))
		body = append([]byte{byte(len(name))}, name...)
		body = append(body, byte(r.Intn(5)), 0, 0, 1, 0)
		if r.Chance(30) {
			body = r.Bytes(r.Intn(12))
		}
	default:
		body = frames.RandBody(r, 40)
	}
	return mkFrame(h, body)
}

func genC06(r *fw.Rng, tier string, emit func(fw.Case)) {
	n := 700
	if tier == "thorough" {
		n = 12000
	}
	for i := 0; i < n; i++ {
		v2019 := r.Bool()
		phone := frames.RandPhone(r, v2019)
		var ws []pchunk
		nw := 1 + r.Intn(6)
		var pending *transferSpec
		var order []int
		hadTransfer := false
		for w := 0; w < nw; w++ {
			var data []byte
			k := 1 + r.Intn(3)
			for j := 0; j < k; j++ {
				if pending == nil && r.Chance(12) {
					t := randTransfer(r, uint16(r.Pick([]int{0x0801, 0x0200, 0x0704, 0x0102})), 4)
					t.phone, t.v2019 = phone, v2019
					pending, order = &t, arrival(r, len(t.bodies), 10)
					hadTransfer = true
				}
				if pending != nil && r.Chance(60) {
					no := order[0]
					order = order[1:]
					data = append(data, pending.packet(no, r).bytes...)
					if len(order) == 0 {
						pending = nil
					}
					continue
				}
				f := c06Frame(r, phone, v2019).bytes
				data = append(data, f...)
				if r.Chance(8) { // a retransmission: the same frame again, byte for byte, in the same write (each gets its reply)
					data = append(data, f...)
				}
			}
			if len(data) > 1023 {
				data = c06Frame(r, phone, v2019).bytes
			}
			ws = append(ws, pchunk{0, data})
		}
		emit(fw.Case{Op: "conv", Args: []string{encodeSession(ws)}})
		// (a completed transfer is delivered at the end of the read that completed it, so with sub-packages the order of
		// replies legitimately depends on where the reads end; convcut uses conversations without them)
		if i%5 == 0 && len(ws) > 0 && !hadTransfer {
			emit(fw.Case{Op: "convcut", Args: []string{encodeSession(ws), strconv.Itoa(1 + r.Intn(1000000))}})
		}
	}
	// racing conversations: equal-length frames whose replies depend on the body, one frame per write, not
	// waiting for the answers, slow write callback (the reader runs ahead of the writer)
	nr := 60
	if tier == "thorough" {
		nr = 1500
	}
	for i := 0; i < nr; i++ {
		v2019 := false
		phone := frames.RandPhone(r, v2019)
		for phoneStr(phone) == "000000000000" || len(phoneStr(phone)) < 12 {
			phone = []byte{0x12, 0x34, 0x56, 0x78, byte(r.Intn(10)<<4 | r.Intn(10)), byte(r.Intn(10)<<4 | 1 + r.Intn(9))}
		}
		ps := phoneStr(phone)
		var ws []pchunk
		k := 8 + r.Intn(30)
		for j := 0; j < k; j++ {
			h := frames.H{Phone: phone, Serial: uint16(j)}
			var body []byte
			if r.Bool() {
				h.ID = 0x0102
				body = []byte(ps)
				if r.Bool() {
					body = []byte(strings.Repeat("9", len(ps))) // same length, wrong code
				}
			} else {
				h.ID = 0x0801
				body = append([]byte{0, 0, byte(j), byte(r.Intn(256))}, make([]byte, 32)...)
			}
			ws = append(ws, pchunk{0, frames.Build(h, body)})
		}
		emit(fw.Case{Op: "convrace", Args: []string{encodeSession(ws)}})
	}
	// many connections at the same time, replies that depend on the request body
	cp := [2]int{10, 400}
	if tier == "thorough" {
		cp = [2]int{16, 4000}
	}
	emit(fw.Case{Op: "convpar", Args: []string{strconv.Itoa(cp[0]), strconv.Itoa(cp[1]), strconv.Itoa(r.Intn(1000000))}})
	// long conversation across the wrap of the 16-bit platform serial (65536 replies and a few more)
	long := 65600
	if tier == "thorough" {
		long = 132000
	}
	{
		phone := frames.RandPhone(r, false)
		var ws []pchunk
		var data []byte
		for i := 0; i < long; i++ {
			h := frames.H{ID: 0x0002, Phone: phone, Serial: uint16(i)}
			data = append(data, frames.Build(h, nil)...)
			if len(data) > 900 {
				ws = append(ws, pchunk{0, data})
				data = nil
			}
		}
		if len(data) > 0 {
			ws = append(ws, pchunk{0, data})
		}
		emit(fw.Case{Op: "conv", Args: []string{encodeSession(ws)}})
	}
}

var C06 = &fw.Prop{ID: "C06", Gen: genC06, Oracle: oracleC06, Exec: execConv,
	Class: func(c fw.Case, res string) string {
		n := strings.Count(res, ",") + 1
		if strings.HasPrefix(res, "[]") {
			n = 0
		}
		switch {
		case n == 0:
			return "conv:no-reply"
		case n <= 3:
			return "conv:1-3replies"
		case n <= 100:
			return "conv:4-100replies"
		}
		return "conv:long"
	}}
