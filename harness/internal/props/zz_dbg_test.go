package props
import ("testing";"fmt";"strings";"os";"verif/harness/internal/fw")
func TestDbgAtt(t *testing.T){
 b,_:=os.ReadFile("/verif/.build/run/C15/ops.txt")
 line:=strings.Split(string(b),"\n")[55]
 a:=strings.Fields(line)
 c:=fw.Case{Op:a[1],Args:a[2:]}
 fmt.Println(c.Args[3])
 res:=execAtt(c)
 fmt.Println(res)
 s:=attSrv
 for _,e:=range s.Snapshot(){ delete(e,"record"); fmt.Println(e) }
 attStopAll()
}
