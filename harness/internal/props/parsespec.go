package props

import (
	"fmt"
	"sort"
	"strings"

	"verif/harness/internal/frames"
	"verif/harness/internal/fw"
)

// finfo is one frame of a generated stream together with what the standard says it contains.
type finfo struct {
	h     frames.H
	body  []byte
	bytes []byte
}

func mkFrame(h frames.H, body []byte) finfo {
	return finfo{h: h, body: body, bytes: frames.Build(h, body)}
}

// specEvents: what the property prescribes for one read.
type specEvents struct {
	plain     []string // "id.serial.sum.no" of every frame completed by this read, in order
	completes []string // "id.<hex body>" of every reassembled message delivered in this read, in order
	reqs      []string // "serial.count.<p1,p2,...>" of every re-request produced by this read (sorted)
}

type specTransfer struct {
	n              int
	slots          map[int][]byte
	create, update int
	serial1        uint16
}

// specRun evaluates the specification (C04 + C05 + C14) on a stream of valid frames cut into timed reads.
func specRun(fs []finfo, chunks []pchunk) []specEvents {
	var ends []int
	tot := 0
	for _, f := range fs {
		tot += len(f.bytes)
		ends = append(ends, tot)
	}
	tr := map[uint16]*specTransfer{}
	var out []specEvents
	now, got, next := 0, 0, 0
	for _, c := range chunks {
		now += c.dt
		got += len(c.data)
		var ev specEvents
		for next < len(fs) && ends[next] <= got {
			f := fs[next]
			next++
			sum, no := 0, 0
			if f.h.Frag {
				sum, no = int(f.h.Sum), int(f.h.No)
			}
			ev.plain = append(ev.plain, fmt.Sprintf("%d.%d.%d.%d", f.h.ID, f.h.Serial, sum, no))
			if sum == 0 {
				continue
			}
			if no == 1 {
				tr[f.h.ID] = &specTransfer{n: sum, slots: map[int][]byte{}, create: now, update: now, serial1: f.h.Serial}
			}
			t := tr[f.h.ID]
			if t == nil || no < 1 || no > t.n || sum != t.n {
				continue // impossible number, no transfer announced, or a package that announces another total: not part of it
			}
			t.slots[no] = f.body
			t.update = now
			if len(t.slots) == t.n {
				var data []byte
				for i := 1; i <= t.n; i++ {
					data = append(data, t.slots[i]...)
				}
				ev.completes = append(ev.completes, fmt.Sprintf("%d.%s", f.h.ID, fw.Hex(data)))
				delete(tr, f.h.ID)
			}
		}
		for id, t := range tr {
			if now-t.create >= 60000 {
				delete(tr, id)
				continue
			}
			if now-t.update >= 5000 {
				var miss []string
				for i := 1; i <= t.n; i++ {
					if _, ok := t.slots[i]; !ok {
						miss = append(miss, fmt.Sprint(i))
					}
				}
				ev.reqs = append(ev.reqs, fmt.Sprintf("%d.%d.%s", t.serial1, len(miss)&0xff, strings.Join(miss, ",")))
				t.update = now
			}
		}
		sort.Strings(ev.reqs)
		out = append(out, ev)
	}
	return out
}

// implEvents parses the rendered result of runSession into the same shape.
func implEvents(res string) (evs []specEvents, errored bool, hist int, ok bool) {
	if res == "panic" {
		return nil, false, 0, false
	}
	parts := strings.Split(res, " ")
	if len(parts) != 3 {
		return nil, false, 0, false
	}
	fmt.Sscanf(parts[1], "h=%d", &hist)
	for _, ch := range strings.Split(parts[0], "#") {
		if strings.HasSuffix(ch, "!E") {
			errored = true
			ch = strings.TrimSuffix(ch, "!E")
		}
		ch = strings.TrimSuffix(strings.TrimPrefix(ch, "["), "]")
		halves := strings.SplitN(ch, "|", 2)
		var ev specEvents
		if halves[0] != "" {
			for _, m := range strings.Split(halves[0], ";") {
				f := strings.Split(m, ".")
				if len(f) != 7 {
					return nil, false, 0, false
				}
				if f[4] == "1" {
					ev.completes = append(ev.completes, f[0]+"."+f[5])
				} else {
					ev.plain = append(ev.plain, strings.Join(f[:4], "."))
				}
			}
		}
		if len(halves) > 1 && halves[1] != "" {
			for _, m := range strings.Split(halves[1], ";") {
				f := strings.Split(m, ".")
				if len(f) != 7 {
					return nil, false, 0, false
				}
				b := fw.UnHex(f[5])
				if len(b) < 3 {
					ev.reqs = append(ev.reqs, "malformed."+f[5])
					continue
				}
				var lst []string
				for i := 3; i+1 < len(b); i += 2 {
					lst = append(lst, fmt.Sprint(int(b[i])<<8|int(b[i+1])))
				}
				ev.reqs = append(ev.reqs, fmt.Sprintf("%d.%d.%s", int(b[0])<<8|int(b[1]), b[2], strings.Join(lst, ",")))
			}
			sort.Strings(ev.reqs)
		}
		evs = append(evs, ev)
	}
	return evs, errored, hist, true
}

func sameStrs(a, b []string) bool {
	if len(a) != len(b) {
		return false
	}
	for i := range a {
		if a[i] != b[i] {
			return false
		}
	}
	return true
}
