package props

// C03 "Decoders are total functions of their input".
//
// Op line:  tot <typeName> <ctx> <bodyHex> <histSpec>
//   histSpec = "-" | hex[,hex…]  bodies the receiver parses (errors and panics
//   ignored) before the body under test; only used by the oracle's run (d).
// Exec:     "ok" | "err" | "panic"   (class of parsing bodyHex into a FRESH
//   receiver from an exact-capacity copy; "ok" only if every String() of the
//   parsed value returns, else "panic"; "timeout" if the 2 s watchdog fires).

import (
	"fmt"
	"strings"

	"github.com/cuteLittleDevil/go-jt808/shared/consts"
	"verif/harness/internal/fw"
)

type codecRun struct {
	cls     string // ok | err | panic | timeout
	site    string // panicking library function (parse)
	what    string
	recv    codecRecv
	strCls  string // "" (not rendered) | ok | panic | timeout
	strSite string
	strWhat string
}

// codecRunOne parses hist (ignoring outcomes) and then buf into a fresh receiver.
// Rendering is a separate step (codecRender) that the oracle performs only after
// the values have been compared: several String() methods call Encode(), and
// P9208AlarmSign.encode() writes to the value it renders.
func codecRunOne(e *codecEntry, c codecCtx, buf []byte, hist [][]byte) codecRun {
	recv := e.mk(c)
	for _, h := range hist {
		hb := fw.Exact(h)
		// a history body whose first byte is the marker 0xA5 followed by a version byte was received under ANOTHER header
		// version than the body under test (one receiver per connection, terminals of mixed versions behind a gateway)
		if pv, ok := recv.(interface {
			parseVer(v consts.ProtocolVersionType, body []byte) string
		}); ok && len(h) >= 2 && h[0] == 0xA5 && (h[1] == 1 || h[1] == 2 || h[1] == 3) {
			ver, rest := consts.ProtocolVersionType(h[1]), fw.Exact(h[2:])
			if g := codecGuard(func() { pv.parseVer(ver, rest) }); g.timeout {
				return codecRun{cls: "timeout", what: "while parsing a history body"}
			}
			continue
		}
		if g := codecGuard(func() { recv.parse(hb) }); g.timeout {
			return codecRun{cls: "timeout", what: "while parsing a history body"}
		}
	}
	out := codecRun{recv: recv}
	var cls string
	g := codecGuard(func() { cls = recv.parse(buf) })
	switch {
	case g.timeout:
		out.cls = "timeout"
	case g.panicked:
		out.cls, out.site, out.what = "panic", g.site, g.what
	default:
		out.cls = cls
	}
	return out
}

// codecRender calls every String() of a successfully parsed value.
func codecRender(e *codecEntry, r *codecRun) {
	if r.cls != "ok" || !e.hasString {
		return
	}
	g := codecGuard(r.recv.render)
	switch {
	case g.timeout:
		r.strCls = "timeout"
	case g.panicked:
		r.strCls, r.strSite, r.strWhat = "panic", g.site, g.what
	default:
		r.strCls = "ok"
	}
}

func codecParseHist(s string) [][]byte {
	if s == "-" {
		return nil
	}
	var out [][]byte
	for _, h := range strings.Split(s, ",") {
		out = append(out, fw.UnHex(h))
	}
	return out
}

func codecLookup(c fw.Case, nargs int) (*codecEntry, codecCtx, bool) {
	if len(c.Args) < nargs {
		return nil, codecCtx{}, false
	}
	e := codecByName[c.Args[0]]
	if e == nil || !e.hasCtx(c.Args[1]) {
		return nil, codecCtx{}, false
	}
	ctx, ok := codecParseCtx(c.Args[1])
	return e, ctx, ok
}

func codecExecTot(c fw.Case) string {
	if c.Op != "tot" {
		return "bad-op"
	}
	e, ctx, ok := codecLookup(c, 4)
	if !ok {
		return "bad-op"
	}
	r := codecRunOne(e, ctx, fw.Exact(fw.UnHex(c.Args[2])), nil)
	codecRender(e, &r)
	if r.cls != "ok" {
		return r.cls
	}
	if r.strCls == "panic" || r.strCls == "timeout" {
		return r.strCls
	}
	return "ok"
}

func codecSigSite(prefix, class, site string) string {
	s := prefix + "/" + class
	if site != "" && site != prefix && !strings.HasSuffix(prefix, "."+site) {
		// the discriminator is the innermost library function of the panic
		s += "/" + site
	}
	return s
}

func codecDiffVals(a, b []interface{}) string {
	for i := range a {
		if d := codecDiff(a[i], b[i], nil); d != "" {
			if len(a) > 1 {
				return fmt.Sprintf("value#%d %s", i, d)
			}
			return d
		}
	}
	return ""
}

func codecOracleTot(c fw.Case) *fw.OracleFailure {
	if c.Op != "tot" {
		return nil
	}
	e, ctx, ok := codecLookup(c, 4)
	if !ok {
		return &fw.OracleFailure{Sig: "codec/bad-op", Msg: "unknown type or context in " + c.Op + " " + strings.Join(c.Args[:2], " ")}
	}
	body := fw.UnHex(c.Args[2])
	hist := codecParseHist(c.Args[3])
	typ := strings.TrimSuffix(strings.TrimSuffix(e.sig, ".Parse"), ".Decode")
	where := fmt.Sprintf("%s ctx=%s body=%s", e.name, ctx.s, trunc(fw.Hex(body), 160))

	a := codecRunOne(e, ctx, fw.Exact(body), nil)            // fresh, exact capacity
	b := codecRunOne(e, ctx, fw.Spare(body, 64, 0x00), nil)  // fresh, 64 spare bytes of 0x00
	cc := codecRunOne(e, ctx, fw.Spare(body, 64, 0xFF), nil) // fresh, 64 spare bytes of 0xFF
	runs := []codecRun{a, b, cc}
	names := []string{"exact", "spare00", "spareFF"}
	var d codecRun
	if len(hist) > 0 {
		d = codecRunOne(e, ctx, fw.Exact(body), hist) // reused receiver
		runs = append(runs, d)
		names = append(names, "reused")
	}
	for i, r := range runs {
		if r.cls == "timeout" {
			return &fw.OracleFailure{Sig: e.sig + "/timeout", Msg: fmt.Sprintf("no answer within %v (%s buffer) %s %s", codecWatchdog, names[i], r.what, where)}
		}
	}
	// (a) (b) (c): the outcome may depend on the bytes of the slice only
	for i, r := range []codecRun{b, cc} {
		if r.cls != a.cls {
			site := a.site + r.site // at most one of the two panicked
			if a.cls == "panic" && r.cls == "panic" {
				site = a.site
			}
			return &fw.OracleFailure{Sig: codecSigSite(e.sig, "overread", site),
				Msg: fmt.Sprintf("outcome depends on memory beyond len: exact-capacity buffer gives %s%s, %s gives %s%s; %s",
					a.cls, codecWhat(a), names[i+1], r.cls, codecWhat(r), where)}
		}
		if a.cls == "ok" {
			if df := codecDiffVals(a.recv.vals(), r.recv.vals()); df != "" {
				return &fw.OracleFailure{Sig: e.sig + "/overread",
					Msg: fmt.Sprintf("parsed value depends on memory beyond len: exact vs %s differ at %s; %s", names[i+1], df, where)}
			}
		}
	}
	if a.cls == "panic" {
		return &fw.OracleFailure{Sig: codecSigSite(e.sig, "panic", a.site), Msg: fmt.Sprintf("panic %q in %s; %s", a.what, a.site, where)}
	}
	// (d): a receiver that parsed other bodies before behaves like a fresh one
	// (compared before anything is rendered: String() may write to the value)
	if len(hist) > 0 {
		hs := trunc(c.Args[3], 160)
		if d.cls != a.cls {
			sig := e.sig + "/history"
			if d.cls == "panic" {
				sig = codecSigSite(e.sig, "history/panic", d.site)
			}
			return &fw.OracleFailure{Sig: sig, Msg: fmt.Sprintf("fresh receiver gives %s, a receiver that parsed [%s] before gives %s%s; %s", a.cls, hs, d.cls, codecWhat(d), where)}
		}
		if a.cls == "ok" {
			if df := codecDiffVals(a.recv.vals(), d.recv.vals()); df != "" {
				return &fw.OracleFailure{Sig: e.sig + "/history", Msg: fmt.Sprintf("value keeps state of an earlier parse: fresh vs reused receiver (history [%s]) differ at %s; %s", hs, df, where)}
			}
		}
	}
	// rendering the parsed value is total
	codecRender(e, &a)
	if a.strCls == "timeout" {
		return &fw.OracleFailure{Sig: typ + ".String/timeout", Msg: fmt.Sprintf("String() gives no answer within %v; %s", codecWatchdog, where)}
	}
	if a.strCls == "panic" {
		return &fw.OracleFailure{Sig: codecSigSite(typ+".String", "panic", a.strSite), Msg: fmt.Sprintf("String() of the parsed value panics: %q in %s; %s", a.strWhat, a.strSite, where)}
	}
	if len(hist) > 0 {
		codecRender(e, &d)
		if d.strCls == "panic" || d.strCls == "timeout" {
			return &fw.OracleFailure{Sig: codecSigSite(typ+".String", "history/"+d.strCls, d.strSite),
				Msg: fmt.Sprintf("String() fails only on the reused receiver (history [%s]): %q; %s", trunc(c.Args[3], 160), d.strWhat, where)}
		}
	}
	return nil
}

func codecWhat(r codecRun) string {
	if r.cls == "panic" {
		return fmt.Sprintf(" (%q in %s)", r.what, r.site)
	}
	return ""
}

// ---------------------------------------------------------------------------
// generator

type codecTotGen struct {
	r    *fw.Rng
	emit func(fw.Case)
	e    *codecEntry
	ctx  codecCtx
	// pool of bodies already produced for this entry/context (history material)
	pool [][]byte
}

func (g *codecTotGen) final(raw []byte) []byte {
	if g.e.wrap != nil {
		return g.e.wrap(raw)
	}
	return raw
}

func (g *codecTotGen) history(pct int) string {
	if len(g.pool) == 0 || !g.r.Chance(pct) {
		return "-"
	}
	k := 1 + g.r.Intn(3)
	var hs []string
	for i := 0; i < k; i++ {
		h := g.pool[g.r.Intn(len(g.pool))]
		if len(h) == 0 {
			continue
		}
		hs = append(hs, fw.Hex(h))
	}
	if len(hs) == 0 {
		return "-"
	}
	return strings.Join(hs, ",")
}

// out emits the final-form body; histPct is the chance of a reused receiver.
func (g *codecTotGen) out(body []byte, histPct int) {
	g.emit(fw.Case{Op: "tot", Args: []string{g.e.name, g.ctx.s, fw.Hex(body), g.history(histPct)}})
	if len(g.pool) < 64 {
		g.pool = append(g.pool, append([]byte{}, body...))
	} else if g.r.Chance(10) {
		g.pool[g.r.Intn(len(g.pool))] = append([]byte{}, body...)
	}
}

// mutate derives the corrupted variants of one valid (raw form) body.
func (g *codecTotGen) mutate(raw []byte, other []byte, full, deep bool) {
	r := g.r
	// the valid body itself: fresh, and twice on a reused receiver
	g.out(g.final(raw), 0)
	g.out(g.final(raw), 100)
	// ... and on a receiver that has parsed a body under each of the OTHER header versions before (a decoder that
	// remembers the version of an earlier message reads this one with the wrong layout)
	if len(g.e.ctxs) > 1 && g.ctx.ver != 0 {
		for _, v := range []consts.ProtocolVersionType{consts.JT808Protocol2011, consts.JT808Protocol2013, consts.JT808Protocol2019} {
			if v == g.ctx.ver {
				continue
			}
			octx := g.ctx
			octx.ver = v
			ob := codecValidBody(g.e, g.r, octx)
			if len(ob) == 0 {
				continue
			}
			hb := append([]byte{0xA5, byte(v)}, g.final(ob)...)
			g.emit(fw.Case{Op: "tot", Args: []string{g.e.name, g.ctx.s, fw.Hex(g.final(raw)), fw.Hex(hb)}})
		}
	}
	if full {
		g.out(g.final(raw), 100)
	}
	// zero-valued words after non-zero ones on a reused receiver (a parser that skips its reset when a word is 0
	// keeps the flags of the earlier message): every aligned 4-byte window of the first 32 bytes zeroed, and all of them
	for off := 0; off+4 <= len(raw) && off < 32; off += 4 {
		m := append([]byte{}, raw...)
		copy(m[off:], []byte{0, 0, 0, 0})
		g.out(g.final(m), 100)
	}
	if len(raw) >= 8 {
		m := append([]byte{}, raw...)
		for i := 0; i < 8; i++ {
			m[i] = 0
		}
		g.out(g.final(m), 100)
	}
	// count/length fields lie: every byte of the first 40 set to 0, 1, 0xff, b+1, b-1
	if full {
		for off := 0; off < len(raw) && off < 40; off++ {
			seen := map[byte]bool{raw[off]: true}
			for _, v := range []byte{0, 1, 0xff, raw[off] + 1, raw[off] - 1} {
				if seen[v] {
					continue
				}
				seen[v] = true
				m := append([]byte{}, raw...)
				m[off] = v
				g.out(g.final(m), 25)
			}
		}
		// a length field that points exactly at (or just short of / past) the end of the
		// body: byte := number of bytes that follow it, minus 0, 4, 5, 6 (the fixed
		// parts that follow a name or a list in the layouts at hand)
		if deep {
			for off := 0; off < len(raw) && off < 160; off++ {
				rem := len(raw) - off - 1
				seen := map[byte]bool{raw[off]: true}
				for _, k := range []int{0, 4, 5, 6} {
					if v := rem - k; v >= 0 && v <= 255 && !seen[byte(v)] {
						seen[byte(v)] = true
						m := append([]byte{}, raw...)
						m[off] = byte(v)
						g.out(g.final(m), 10)
					}
				}
				if off >= 40 && !seen[0xff] {
					m := append([]byte{}, raw...)
					m[off] = 0xff
					g.out(g.final(m), 10)
				}
			}
		}
	} else {
		for i := 0; i < 12 && len(raw) > 0; i++ {
			m := append([]byte{}, raw...)
			off := r.Intn(len(raw))
			if off >= 40 && r.Chance(70) {
				off = r.Intn(40)
			}
			m[off] = []byte{0, 1, 0xff, m[off] + 1, m[off] - 1}[r.Intn(5)]
			g.out(g.final(m), 25)
		}
	}
	// truncation at every offset (<= 80 bytes), else at 40 random offsets
	var cuts []int
	switch {
	case !full:
		for i := 0; i < 10 && len(raw) > 0; i++ {
			cuts = append(cuts, r.Intn(len(raw)))
		}
	case len(raw) <= 80:
		cuts = codecSeq(len(raw))
	default:
		for i := 0; i < 40; i++ {
			cuts = append(cuts, r.Intn(len(raw)))
		}
	}
	for _, n := range cuts {
		g.out(g.final(raw[:n]), 20)
	}
	// extension by 1..3 bytes
	for n := 1; n <= 3; n++ {
		g.out(g.final(append(append([]byte{}, raw...), r.Bytes(n)...)), 20)
	}
	// splice with another valid body
	if len(other) > 0 && len(raw) > 0 {
		k := 4
		if !full {
			k = 2
		}
		for i := 0; i < k; i++ {
			m := append(append([]byte{}, raw[:r.Intn(len(raw)+1)]...), other[r.Intn(len(other)):]...)
			g.out(g.final(m), 20)
		}
	}
	// wrapped entries: also damage the final form (escape sequences, delimiters, check code)
	if g.e.wrap != nil {
		f := g.final(raw)
		for i := 0; i < 16; i++ {
			m := append([]byte{}, f...)
			off := r.Intn(len(m))
			m[off] = []byte{0, 0x7d, 0x7e, 0x01, 0x02, m[off] + 1, codecU8(r)}[r.Intn(7)]
			g.out(m, 20)
		}
		for i := 0; i < 8; i++ {
			g.out(f[:r.Intn(len(f))], 20)
		}
	}
}

// wraps: count fields whose product with an element size overflows the width the parser computes it in. For an
// element size s and a w-bit count field, c = 2^w/s + 1 makes c*s wrap to a small value r; a body that holds the count
// at offset o followed by exactly r (+k) bytes satisfies a length guard evaluated in w bits although the list the
// count announces is far longer than the body.
func (g *codecTotGen) wraps(raw []byte) {
	sizes := []int{2, 3, 4, 5, 6, 7, 8, 9, 10, 12, 16, 20, 24, 28}
	for o := 0; o <= len(raw) && o <= 12; o++ {
		for _, s := range sizes {
			for k := 0; k < 2; k++ {
				c16 := 65536/s + 1
				m := append(append([]byte{}, raw[:o]...), byte(c16>>8), byte(c16))
				m = append(m, g.r.Bytes((c16*s)%65536+k)...)
				g.out(g.final(m), 0)
				c8 := 256/s + 1
				m = append(append([]byte{}, raw[:o]...), byte(c8))
				m = append(m, g.r.Bytes((c8*s)%256+k)...)
				g.out(g.final(m), 0)
				// 32-bit count fields: count·s ≡ k·s (mod 2^32) for count = 2^32/g + k, g the power of two in s — a length
				// check computed in uint32 sees k records where the count announces a billion
				if k == 0 || s <= 28 {
					pw := 1
					for s%(pw*2) == 0 {
						pw *= 2
					}
					c32 := uint64(1<<32)/uint64(pw) + uint64(k)
					m = append(append([]byte{}, raw[:o]...), byte(c32>>24), byte(c32>>16), byte(c32>>8), byte(c32))
					m = append(m, g.r.Bytes(k*s)...)
					g.out(g.final(m), 0)
				}
			}
		}
	}
}

func (g *codecTotGen) random(n, long int) {
	r := g.r
	for i := 0; i < n; i++ {
		b := r.Bytes(r.Intn(81))
		if g.e.name == "jt1078.Packet" && len(b) >= 4 && r.Chance(85) {
			copy(b, "01cd")
		}
		if r.Chance(30) {
			b = r.BytesFrom(len(b), []byte{0, 1, 2, 0xff, 0x7d, 0x7e, 0x30, 0x64}, 60)
		}
		if g.e.wrap != nil && r.Chance(60) {
			b = g.e.wrap(b)
		}
		g.out(b, 20)
	}
	for i := 0; i < long; i++ {
		b := r.Bytes(81 + r.Intn(1000))
		if g.e.name == "jt1078.Packet" {
			copy(b, "01cd")
		}
		if g.e.wrap != nil {
			b = g.e.wrap(b)
		}
		g.out(b, 30)
	}
}

func codecGenC03(r *fw.Rng, tier string, emit func(fw.Case)) {
	mul := 1
	if tier == "thorough" {
		mul = 20
	}
	for _, e := range codecRegistry {
		for ci, cs := range e.ctxs {
			ctx, _ := codecParseCtx(cs)
			g := &codecTotGen{r: r.Fork(), emit: emit, e: e, ctx: ctx}
			full := e.fullCtx(ci)
			nValid := 2 * mul
			if !full {
				nValid = mul
			}
			if e.weight > 0 {
				nValid *= e.weight
			}
			// seed the history pool
			for i := 0; i < 4; i++ {
				if b := codecValidBody(e, g.r, ctx); len(b) > 0 {
					g.pool = append(g.pool, g.final(b))
				}
			}
			for i := 0; i < nValid; i++ {
				raw := codecValidBody(e, g.r, ctx)
				other := codecValidBody(e, g.r, ctx)
				g.mutate(raw, other, full, full && i%2 == 0)
			}
			// "big, then small" on one reused receiver: for types with list/length variants every ordered pair of
			// (a few) variants, e.g. a 255-entry list followed by the empty form — stale entries of the earlier message
			// must not survive in the later one
			if e.variants != nil && e.gen != nil {
				vs := e.variants(tier)
				pick := []int{}
				for _, k := range []int{0, 1, len(vs) / 2, len(vs) - 1} {
					if k >= 0 && k < len(vs) {
						dup := false
						for _, p := range pick {
							dup = dup || p == vs[k]
						}
						if !dup {
							pick = append(pick, vs[k])
						}
					}
				}
				bodies := map[int][]byte{}
				for _, v := range pick {
					val := e.gen(g.r, ctx, v)
					if b, ok := (&codecBodyRecv{v: val, ver: ctx.ver}).encode(); ok {
						bodies[v] = g.final(b)
					}
				}
				for _, small := range pick {
					for _, big := range pick {
						if small == big || bodies[small] == nil || len(bodies[big]) == 0 {
							continue
						}
						emit(fw.Case{Op: "tot", Args: []string{e.name, ctx.s, fw.Hex(bodies[small]), fw.Hex(bodies[big])}})
					}
				}
			}
			if full {
				g.wraps(codecValidBody(e, g.r, ctx))
			}
			if full {
				g.random(20*mul, 2*mul)
			} else {
				g.random(8*mul, mul)
			}
		}
	}
	codecGenItems(r.Fork(), tier, emit)
}

// codecGenItems enumerates (id, length) pairs of additional-information items,
// extension items and terminal parameters.
func codecGenItems(r *fw.Rng, tier string, emit func(fw.Case)) {
	reps := 1
	if tier == "thorough" {
		reps = 20
	}
	tot := func(name, ctx string, body []byte, hist string) {
		emit(fw.Case{Op: "tot", Args: []string{name, ctx, fw.Hex(body), hist}})
	}
	item := func(id byte, n int, declared int) []byte {
		return append([]byte{id, byte(declared)}, r.Bytes(n)...)
	}
	// additional information: all ids x lengths 0..8, 30, 31 behind a valid 28-byte location
	lens := []int{0, 1, 2, 3, 4, 5, 6, 7, 8, 30, 31}
	for rep := 0; rep < reps; rep++ {
		for id := 0; id < 256; id++ {
			for _, n := range lens {
				body := append(codecLocBytes(r), item(byte(id), n, n)...)
				tot("T0x0200", "v2013", body, "-")
				if rep == 0 && n <= 8 && (id <= 0x31 || id%16 == 0) {
					// the same item inside a batch report
					b := []byte{0, 1, 0}
					b = append(b, byte(len(body)>>8), byte(len(body)))
					tot("T0x0704", "v2013", append(b, body...), "-")
				}
			}
		}
	}
	// extension items: lengths around the size each parser accepts, all dialects
	for rep := 0; rep < reps; rep++ {
		for _, id := range codecExtIDs {
			nat := codecExtNatural(id)
			var ns []int
			for d := -2; d <= 2; d++ {
				ns = append(ns, nat+d)
			}
			if id == 0x66 {
				for k := 1; k <= 2; k++ {
					for d := -2; d <= 2; d++ {
						ns = append(ns, 40+9*k+d)
					}
				}
			}
			for _, d := range codecDialects {
				ctx := "v2013/" + d.name
				for _, n := range ns {
					content := r.Bytes(n)
					if id == 0x66 && n > 40 {
						content[40] = byte((n - 40) / 9)
						if r.Chance(30) {
							content[40] = byte(r.Intn(4))
						}
					}
					tot(fmt.Sprintf("T0x0200AdditionExtension0x%02x", id), ctx, content, "-")
					// plugged in: as the last item, and followed by another item
					plug := fmt.Sprintf("T0x0200+Extension0x%02x", id)
					body := append(append(codecLocBytes(r), id, byte(n)), content...)
					tot(plug, ctx, body, "-")
					tot(plug, ctx, append(append([]byte{}, body...), item(0x01, 4, 4)...), "-")
					// declared length larger than what follows
					tot(plug, ctx, append(append(codecLocBytes(r), id, byte(n+1)), content...), "-")
				}
			}
		}
	}
	// terminal parameters: every id of the code's tables x lengths 0..8 and the natural one
	type pid struct {
		id  uint32
		nat int
	}
	var ids []pid
	for _, p := range codecParamFields {
		ids = append(ids, pid{p.id, p.naturalLen()})
	}
	for _, id := range codecParamExtraIDs {
		ids = append(ids, pid{id, 4})
	}
	for _, id := range codecUnknownParamIDs {
		ids = append(ids, pid{id, 3})
	}
	for rep := 0; rep < reps; rep++ {
		for _, p := range ids {
			for n := 0; n <= 9; n++ {
				ln := n
				if n == 9 {
					ln = p.nat
				}
				tlv := codecParamTLV(p.id, r.Bytes(ln))
				for _, v := range codecVers[:1] {
					tot("P0x8103", v, append([]byte{1}, tlv...), "-")
					tot("T0x0104", v, append([]byte{codecU8(r), codecU8(r), 1}, tlv...), "-")
				}
				if n == 9 {
					// count says more / fewer than the items present; two items
					tot("P0x8103", "v2013", append([]byte{2}, tlv...), "-")
					tot("P0x8103", "v2013", append([]byte{0}, tlv...), "-")
					two := append(append([]byte{2}, tlv...), codecParamTLV(0x0001, r.Bytes(4))...)
					tot("P0x8103", "v2019", two, fw.Hex(append([]byte{1}, tlv...)))
				}
			}
		}
	}
}

func codecClassTot(c fw.Case, res string) string {
	if len(c.Args) < 4 {
		return "bad"
	}
	h := ""
	if c.Args[3] != "-" {
		h = ":reused"
	}
	return c.Args[0] + ":" + res + h
}

// C03: decoders are total functions of their input.
var C03 = &fw.Prop{ID: "C03", Gen: codecGenC03, Exec: codecExecTot, Oracle: codecOracleTot, Class: codecClassTot}
