package props

import (
	"bytes"
	"fmt"
	"strconv"
	"strings"

	"github.com/cuteLittleDevil/go-jt808/protocol/jt808"
	"verif/harness/internal/frames"
	"verif/harness/internal/fw"
)

// showMsg renders a decoded message with the same fields, in the same order, as the Lean driver.
// `attr` and `bcd` are unexported in the implementation; the model prints them too, the
// orchestrator's canonicaliser drops the keys listed in `modelOnlyKeys`.
func showMsg(m *jt808.JTMessage) string {
	h := m.Header
	return fmt.Sprintf("ok id=%d ver=%d frag=%d enc=%d len=%d pv=%d phone=%s serial=%d sum=%d no=%d body=%s verify=%d",
		h.ID, h.Property.Version, h.Property.PacketFragmented, h.Property.EncryptMethod, h.Property.BodyDayaLen,
		int(h.ProtocolVersion), h.TerminalPhoneNo, h.SerialNumber, h.SubPackageSum, h.SubPackageNo, fw.Hex(m.Body), m.VerifyCode)
}

// decHistory: a frame with a non-empty body that a reused JTMessage decodes first (nothing of it may remain visible)
var decHistory = frames.Build(frames.H{ID: 0x0102, Phone: []byte{0x01, 0x23, 0x45, 0x67, 0x89, 0x01}, Serial: 7, Frag: true, Sum: 9, No: 4}, []byte("AUTHCODE-EARLIER"))

// execDec decodes with a fresh JTMessage and with one that has decoded another frame before (the decoder is documented
// as reusable); a difference between the two is reported as "history".
func execDec(c fw.Case) string {
	f := fw.Exact(fw.UnHex(c.Args[0]))
	m := jt808.NewJTMessage()
	fresh := "err"
	if err := m.Decode(f); err == nil {
		fresh = showMsg(m)
	}
	r := jt808.NewJTMessage()
	_ = r.Decode(fw.Exact(decHistory))
	reused := "err"
	if err := r.Decode(fw.Exact(fw.UnHex(c.Args[0]))); err == nil {
		reused = showMsg(r)
	}
	if reused != fresh {
		return "history fresh=(" + fresh + ") reused=(" + reused + ")"
	}
	// one JTMessage and ONE read buffer for consecutive frames (as a caller with its own read loop would do): the earlier
	// frame has the same layout, another phone number and no escape sequence, so everything the decoder kept from it
	// points into the buffer the next frame overwrites
	for _, hist := range [][]byte{decHistory13, decHistory19} {
		buf := make([]byte, 0, 8192)
		sh := jt808.NewJTMessage()
		buf = append(buf[:0], hist...)
		_ = sh.Decode(buf[:len(hist):len(hist)])
		f2 := fw.UnHex(c.Args[0])
		if len(f2) > cap(buf) {
			continue
		}
		buf = append(buf[:0], f2...)
		shared := "err"
		if err := sh.Decode(buf[:len(f2):len(f2)]); err == nil {
			shared = showMsg(sh)
		}
		if shared != fresh {
			return "history fresh=(" + fresh + ") shared-buffer=(" + shared + ")"
		}
	}
	return fresh
}

var decHistory13 = frames.Build(frames.H{ID: 0x0002, Phone: []byte{0x09, 0x87, 0x65, 0x43, 0x21, 0x09}, Serial: 3}, nil)
var decHistory19 = frames.Build(frames.H{ID: 0x0002, V2019: true, Phone: []byte{0, 0, 0, 0, 0x09, 0x87, 0x65, 0x43, 0x21, 0x09}, Serial: 3}, nil)

func implEncode(src []byte, rid, ser uint16, body []byte) ([]byte, *jt808.JTMessage, bool) {
	m := jt808.NewJTMessage()
	if err := m.Decode(fw.Exact(src)); err != nil {
		return nil, nil, false
	}
	m.Header.ReplyID = rid
	m.Header.PlatformSerialNumber = ser
	out := m.Header.Encode(fw.Exact(body))
	// the frame is still in use (queued for writing) when the next one is produced: a later Encode must not touch it
	other := append([]byte{0x7e, 0x7d, 0x55}, body...)
	if len(other) > 900 {
		other = other[:900]
	}
	m.Header.PlatformSerialNumber = ser + 1
	_ = m.Header.Encode(other)
	m.Header.PlatformSerialNumber = ser
	return out, m, true
}

func execEnc(c fw.Case) string {
	rid, _ := strconv.Atoi(c.Args[1])
	ser, _ := strconv.Atoi(c.Args[2])
	out, _, ok := implEncode(fw.UnHex(c.Args[0]), uint16(rid), uint16(ser), fw.UnHex(c.Args[3]))
	if !ok {
		return "src-err"
	}
	return "ok " + fw.Hex(out)
}

// oracleC01: decode(encode(...)) returns the ID, phone, version, serial and body; no interior 0x7e.
func oracleC01(c fw.Case) *fw.OracleFailure {
	if c.Op == "dec" {
		// "decodes back to exactly that …": what Decode returns is a function of the frame, not of what the JTMessage or the
		// caller's buffer held before
		if got := fw.SafeExec(func() string { return execDec(c) }); strings.HasPrefix(got, "history ") {
			return &fw.OracleFailure{Sig: "JTMessage.Decode/depends-on-history", Msg: trunc(got, 600)}
		}
		return nil
	}
	if c.Op != "enc" {
		return nil
	}
	rid, _ := strconv.Atoi(c.Args[1])
	ser, _ := strconv.Atoi(c.Args[2])
	body := fw.UnHex(c.Args[3])
	if len(body) > 1023 {
		return nil // outside the quantifier
	}
	out, src, ok := implEncode(fw.UnHex(c.Args[0]), uint16(rid), uint16(ser), body)
	if !ok {
		return nil
	}
	srcID, srcPhone, srcVer := src.Header.ID, src.Header.TerminalPhoneNo, src.Header.ProtocolVersion
	// re-decode the source, Encode mutated the header
	if len(out) < 2 || out[0] != 0x7e || out[len(out)-1] != 0x7e {
		return &fw.OracleFailure{Sig: "Header.Encode/delimiters", Msg: "frame does not start and end with 0x7e"}
	}
	if bytes.IndexByte(out[1:len(out)-1], 0x7e) >= 0 {
		return &fw.OracleFailure{Sig: "Header.Encode/interior-7e", Msg: "0x7e strictly inside the frame"}
	}
	m := jt808.NewJTMessage()
	if err := m.Decode(out); err != nil {
		return &fw.OracleFailure{Sig: "Header.Encode/undecodable", Msg: fmt.Sprintf("framed message does not decode: %v (body len %d, src frag %d)", err, len(body), src.Header.Property.PacketFragmented)}
	}
	wantID := uint16(rid)
	if wantID == 0 {
		wantID = srcID
	}
	if m.Header.ID != wantID || m.Header.TerminalPhoneNo != srcPhone || m.Header.ProtocolVersion != srcVer ||
		m.Header.SerialNumber != uint16(ser) || !bytes.Equal(m.Body, body) {
		return &fw.OracleFailure{Sig: "Header.Encode/field-mismatch", Msg: fmt.Sprintf("round trip changed a field: id %d/%d phone %s/%s ver %d/%d serial %d/%d bodyEq %v",
			m.Header.ID, wantID, m.Header.TerminalPhoneNo, srcPhone, m.Header.ProtocolVersion, srcVer, m.Header.SerialNumber, ser, bytes.Equal(m.Body, body))}
	}
	return nil
}

// bodyWithChecksum adjusts the last body byte so that the frame checksum of the *encoded reply*
// becomes `want` (exercises "checksum is itself 0x7e/0x7d").
func solveChecksum(src []byte, rid, ser uint16, body []byte, want byte) []byte {
	if len(body) == 0 {
		return body
	}
	b := append([]byte{}, body...)
	b[len(b)-1] = 0
	out, _, ok := implEncode(src, rid, ser, b)
	if !ok {
		return body
	}
	// checksum is linear: compute from the model-free definition on the unescaped bytes
	m := jt808.NewJTMessage()
	if err := m.Decode(out); err != nil {
		// undecodable (known defect for fragmented >=1000) - derive checksum from raw bytes instead
		return body
	}
	b[len(b)-1] = m.VerifyCode ^ want
	return b
}

func genC01(r *fw.Rng, tier string, emit func(fw.Case)) {
	n := 6000
	if tier == "thorough" {
		n = 120000
	}
	for i := 0; i < n; i++ {
		h := frames.RandH(r)
		// source frame: any decodable terminal frame; body of the source is irrelevant but varied
		srcBody := frames.RandBody(r, 40)
		src := frames.Build(h, srcBody)
		rid := frames.RandU16(r)
		if r.Chance(25) {
			rid = 0
		}
		ser := frames.RandU16(r)
		body := frames.RandBody(r, 1023)
		if r.Chance(20) && len(body) > 0 {
			body = solveChecksum(src, rid, ser, body, []byte{0x7e, 0x7d, 0x01, 0x02}[r.Intn(4)])
		}
		emit(fw.Case{Op: "enc", Args: []string{fw.Hex(src), strconv.Itoa(int(rid)), strconv.Itoa(int(ser)), fw.Hex(body)}})
		if i%8 == 0 {
			// the produced frame must also decode identically in the model
			if out, _, ok := implEncode(src, rid, ser, body); ok {
				emit(fw.Case{Op: "dec", Args: []string{fw.Hex(out)}})
			}
		}
	}
	if tier == "thorough" {
		// bodies beyond the quantifier: behaviour is still compared with the model (no oracle)
		for i := 0; i < 300; i++ {
			h := frames.RandH(r)
			src := frames.Build(h, nil)
			body := r.Bytes(1024 + r.Intn(3000))
			emit(fw.Case{Op: "enc", Args: []string{fw.Hex(src), "32769", strconv.Itoa(r.Intn(65536)), fw.Hex(body)}})
		}
	}
}

func classC01(c fw.Case, res string) string {
	if c.Op != "enc" || res == "src-err" {
		return c.Op + ":" + res[:min(len(res), 3)]
	}
	body := fw.UnHex(c.Args[3])
	src := fw.UnHex(c.Args[0])
	cl := "enc"
	m := jt808.NewJTMessage()
	if m.Decode(src) == nil {
		if m.Header.Property.Version == 1 {
			cl += ":2019"
		} else {
			cl += ":2013"
		}
		if m.Header.Property.PacketFragmented == 1 {
			cl += ":frag"
		}
		if m.Header.Property.EncryptMethod == 1 {
			cl += ":enc"
		}
	}
	switch {
	case len(body) == 0:
		cl += ":len0"
	case len(body) < 1000:
		cl += ":len<1000"
	default:
		cl += ":len>=1000"
	}
	if bytes.ContainsAny(body, "\x7e\x7d") {
		cl += ":esc"
	}
	return cl
}

var C01 = &fw.Prop{ID: "C01", Gen: genC01, Oracle: oracleC01, Class: classC01,
	Exec: func(c fw.Case) string {
		switch c.Op {
		case "enc":
			return execEnc(c)
		case "dec":
			return execDec(c)
		}
		return "bad-op"
	}}
