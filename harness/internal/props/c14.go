package props

import (
	"fmt"
	"net"
	"strings"
	"time"

	"github.com/cuteLittleDevil/go-jt808/service"
	"github.com/cuteLittleDevil/go-jt808/shared/consts"
	"verif/harness/internal/frames"
	"verif/harness/internal/fw"
)

// genC14: transfers with missing packets, idle periods around 5 s and 60 s (whole seconds; the harness moves
// the stored timestamps back instead of sleeping), repeated re-request rounds, partial and complete resupply.
func genC14(r *fw.Rng, tier string, emit func(fw.Case)) {
	n, maxN := 1500, 12
	if tier == "thorough" {
		n, maxN = 25000, 255
	}
	idle := []int{0, 1000, 2000, 4000, 5000, 6000, 9000, 11000, 30000, 54000, 59000, 60000, 61000}
	heartbeat := func() finfo { return mkFrame(unfragH(r), nil) }
	for i := 0; i < n; i++ {
		N := 2 + r.Intn(maxN-1)
		if r.Chance(10) && tier == "thorough" {
			N = 200 + r.Intn(56)
		}
		t := randTransfer(r, uint16(r.Pick(transferIDs)), 1)
		t.bodies = nil
		for k := 0; k < N; k++ {
			t.bodies = append(t.bodies, r.Bytes(1+r.Intn(6)))
		}
		// non-empty subset of 2..N is missing
		missing := map[int]bool{}
		for k := 2; k <= N; k++ {
			if r.Chance(35) {
				missing[k] = true
			}
		}
		if len(missing) == 0 {
			missing[2+r.Intn(N-1)] = true
		}
		var cs []pchunk
		// initial burst: packet 1 first, then the present ones in shuffled order, small pauses
		order := arrival(r, N, 0)
		first := true
		var burst []byte
		for _, no := range order {
			if missing[no] {
				continue
			}
			b := t.packet(no, r).bytes
			if first || r.Chance(50) {
				if len(burst) > 0 {
					cs = append(cs, pchunk{r.Pick([]int{0, 0, 1000}), burst})
				}
				burst = nil
				first = false
			}
			burst = append(burst, b...)
			if len(burst) > 900 {
				cs = append(cs, pchunk{0, burst})
				burst = nil
			}
		}
		if len(burst) > 0 {
			cs = append(cs, pchunk{0, burst})
		}
		// optionally a second transfer running concurrently
		var t2 *transferSpec
		if r.Chance(30) {
			x := randTransfer(r, t.id^0x0010, 1)
			x.bodies = [][]byte{r.Bytes(3), r.Bytes(3), r.Bytes(3)}
			t2 = &x
			cs = append(cs, pchunk{r.Pick([]int{0, 1000, 3000}), x.packet(1, r).bytes})
		}
		// rounds: idle, then inbound data (heartbeat or resupply of some missing packets)
		rounds := 1 + r.Intn(5)
		for k := 0; k < rounds; k++ {
			dt := r.Pick(idle)
			switch r.Intn(4) {
			case 0, 1: // heartbeat triggers the check
				cs = append(cs, pchunk{dt, heartbeat().bytes})
			case 2: // resupply a part of what is missing
				var data []byte
				for no := range missing {
					if r.Chance(50) {
						data = append(data, t.packet(no, r).bytes...)
						delete(missing, no)
					}
					if len(data) > 800 {
						break
					}
				}
				if len(data) == 0 {
					data = heartbeat().bytes
				}
				cs = append(cs, pchunk{dt, data})
			case 3: // resupply everything (bounded by the read buffer: the rest follows immediately)
				var data []byte
				for no := range missing {
					data = append(data, t.packet(no, r).bytes...)
					delete(missing, no)
					if len(data) > 800 {
						cs = append(cs, pchunk{dt, data})
						data, dt = nil, 0
					}
				}
				if len(data) > 0 {
					cs = append(cs, pchunk{dt, data})
				}
			}
			if t2 != nil && r.Chance(30) {
				cs = append(cs, pchunk{r.Pick([]int{0, 1000, 5000}), t2.packet(2+r.Intn(2), r).bytes})
			}
		}
		// a late packet after everything
		if r.Chance(40) {
			cs = append(cs, pchunk{r.Pick(idle), t.packet(2, r).bytes})
			cs = append(cs, pchunk{r.Pick(idle), heartbeat().bytes})
		}
		emitSess(emit, cs)
	}
	// restarted transfers: a transfer of message ID X with N packets is abandoned half-way and the terminal starts X
	// again with the same total (new serial numbers, new content). Packet 1 begins a new transfer: what is re-requested
	// and what is delivered belongs to the second transfer only.
	nRestart := n / 6
	for i := 0; i < nRestart; i++ {
		N := 2 + r.Intn(7)
		old := randTransfer(r, uint16(r.Pick(transferIDs)), 1)
		old.bodies = nil
		for k := 0; k < N; k++ {
			old.bodies = append(old.bodies, r.Bytes(1+r.Intn(5)))
		}
		nw := old
		nw.serial = old.serial + 100 + uint16(r.Intn(1000))
		nw.bodies = nil
		for k := 0; k < N; k++ {
			nw.bodies = append(nw.bodies, r.Bytes(1+r.Intn(5)))
		}
		var cs []pchunk
		cs = append(cs, pchunk{0, old.packet(1, r).bytes})
		for k := 2; k <= N; k++ {
			if r.Chance(50) {
				cs = append(cs, pchunk{0, old.packet(k, r).bytes})
			}
		}
		cs = append(cs, pchunk{r.Pick([]int{0, 1000, 4000, 6000, 20000}), nw.packet(1, r).bytes})
		var miss []int
		for k := 2; k <= N; k++ {
			if r.Chance(50) || (k == N && len(miss) == 0) {
				miss = append(miss, k)
			} else {
				cs = append(cs, pchunk{0, nw.packet(k, r).bytes})
			}
		}
		cs = append(cs, pchunk{6000, heartbeat().bytes})
		for _, k := range miss {
			cs = append(cs, pchunk{0, nw.packet(k, r).bytes})
		}
		cs = append(cs, pchunk{r.Pick([]int{0, 6000}), heartbeat().bytes})
		emitSess(emit, cs)
	}
	// exhaustive: every non-empty missing subset for N <= 6 (quick) / 10 (thorough), one re-request round each
	maxE := 6
	if tier == "thorough" {
		maxE = 10
	}
	for N := 2; N <= maxE; N++ {
		t := randTransfer(r, 0x0801, 1)
		t.bodies = nil
		for k := 0; k < N; k++ {
			t.bodies = append(t.bodies, []byte{byte(k + 1)})
		}
		for mask := 1; mask < 1<<(N-1); mask++ {
			var cs []pchunk
			var late []byte
			for no := 1; no <= N; no++ {
				if no >= 2 && mask&(1<<(no-2)) != 0 {
					late = append(late, t.packet(no, r).bytes...)
					continue
				}
				cs = append(cs, pchunk{0, t.packet(no, r).bytes})
			}
			cs = append(cs, pchunk{4000, mkFrame(frames.H{ID: 2, Phone: t.phone, V2019: t.v2019}, nil).bytes})
			cs = append(cs, pchunk{2000, mkFrame(frames.H{ID: 2, Phone: t.phone, V2019: t.v2019, Serial: 1}, nil).bytes})
			cs = append(cs, pchunk{1000, late})
			emitSess(emit, cs)
		}
	}
}

// genManyMissing: large transfers with a number of missing packets around the byte boundaries of the count field
func genManyMissing(r *fw.Rng, tier string, emit func(fw.Case)) {
	for _, nm := range [][2]int{{128, 127}, {255, 126}, {255, 127}, {255, 128}, {255, 254}, {200, 64}} {
		N, miss := nm[0], nm[1]
		t := randTransfer(r, 0x0801, 1)
		t.bodies = nil
		for k := 0; k < N; k++ {
			t.bodies = append(t.bodies, []byte{byte(k + 1), byte(k >> 8)})
		}
		var first []byte
		// packet 1 and the last N-1-miss packets arrive; numbers 2..miss+1 are missing
		for no := 1; no <= N; no++ {
			if no >= 2 && no <= miss+1 {
				continue
			}
			first = append(first, t.packet(no, r).bytes...)
		}
		var cs []pchunk
		for len(first) > 0 {
			n := 1000
			if n > len(first) {
				n = len(first)
			}
			cs = append(cs, pchunk{0, first[:n]})
			first = first[n:]
		}
		cs = append(cs, pchunk{5000, mkFrame(frames.H{ID: 2, Phone: t.phone, V2019: t.v2019}, nil).bytes})
		emitSess(emit, cs)
	}
}

var rereqLast struct {
	key string
	orc *fw.OracleFailure
}

var C14 = &fw.Prop{ID: "C14",
	Gen: func(r *fw.Rng, tier string, emit func(fw.Case)) {
		genC14(r, tier, emit)
		genManyMissing(r, tier, emit)
		genRereqSock(r, tier, emit)
	},
	Oracle: func(c fw.Case) *fw.OracleFailure {
		if c.Op == "rereqsock" || c.Op == "rereqcmd" {
			return nil // the count is fixed by the specification (functional op): a divergence from the model is the failing input
		}
		return oracleParse(c)
	},
	Exec: func(c fw.Case) string {
		if c.Op == "rereqsock" {
			res, _ := execRereqSock(c.Args[0], false)
			return res
		}
		if c.Op == "rereqcmd" {
			res, _ := execRereqSock(c.Args[0], true)
			return res
		}
		return execParse(c)
	},
	Class: func(c fw.Case, res string) string {
		if c.Op == "rereqsock" || c.Op == "rereqcmd" {
			return c.Op
		}
		return classParse(c, res)
	}}

// ---- rereqsock: the same mechanism over a live connection, in real time -------------------------------------------
// Many transfers (different message IDs) on one connection, each missing a packet; after 5.2 s of silence the
// next inbound message must produce one 0x8003 per transfer — none may be dropped because several are due at once.

// withCmd: while the transfers are pending the platform issues a command to the terminal (which never answers it): the
// writer stamps the command's ID and serial into the session's header — the header of the connection's first message
func execRereqSock(sess string, withCmd bool) (string, *fw.OracleFailure) {
	convStart()
	convMu.Lock()
	defer convMu.Unlock()
	rec := &convRecorder{}
	convCurMu.Lock()
	convCur = rec
	convCurMu.Unlock()
	c, err := net.DialTimeout("tcp", convAddr, 2*time.Second)
	if err != nil {
		return "dial-failed", &fw.OracleFailure{Sig: "server/refuses-connection", Msg: err.Error()}
	}
	defer c.Close()
	var all []byte
	buf := make([]byte, 65536)
	readFor := func(d time.Duration) {
		_ = c.SetReadDeadline(time.Now().Add(d))
		for {
			n, err := c.Read(buf)
			all = append(all, buf[:n]...)
			if err != nil {
				return
			}
		}
	}
	for k, ch := range decodeSession(sess) {
		if ch.dt > 0 {
			readFor(time.Duration(ch.dt) * time.Millisecond)
		}
		if _, err := c.Write(ch.data); err != nil {
			break
		}
		if withCmd && k == 0 {
			if fsx, _ := splitFrames(ch.data); len(fsx) > 0 {
				if h, _, ok := frames.Parse(fsx[0]); ok {
					key := strings.TrimLeft(fmt.Sprintf("%x", h.Phone), "0")
					readFor(150 * time.Millisecond)
					go convServer.SendActiveMessage(service.NewActiveMessage(key, consts.P8104QueryTerminalParams, nil, 300*time.Millisecond))
				}
			}
		}
	}
	readFor(800 * time.Millisecond)
	fs, _ := splitFrames(all)
	n := 0
	for _, f := range fs {
		if h, _, ok := frames.Parse(f); ok && h.ID == 0x8003 {
			n++
		}
	}
	return fmt.Sprintf("rereq=%d", n), nil
}

func genRereqSock(r *fw.Rng, tier string, emit func(fw.Case)) {
	counts := []int{8}
	if tier == "thorough" {
		counts = []int{2, 5, 8, 12}
	}
	ids := []uint16{0x0801, 0x0200, 0x0704, 0x0102, 0x0100, 0x0805, 0x1205, 0x0104, 0x0001, 0x0800, 0x1003, 0x1005}
	for _, k := range counts {
		phone := frames.RandPhone(r, false)
		var first []byte
		for i := 0; i < k; i++ {
			for _, no := range []uint16{1, 3} {
				first = append(first, frames.Build(frames.H{ID: ids[i], Phone: phone, Serial: uint16(10*i) + no, Frag: true, Sum: 3, No: no}, r.Bytes(20))...)
			}
		}
		hb := frames.Build(frames.H{ID: 0x0002, Phone: phone, Serial: 999}, nil)
		emit(fw.Case{Op: "rereqsock", Args: []string{encodeSession([]pchunk{{0, first}, {5200, hb}})}})
		if k == counts[0] { // the same with a platform command issued while the transfers are pending
			phone2 := frames.RandPhone(r, false)
			var f2 []byte
			for i := 0; i < 3; i++ {
				for _, no := range []uint16{1, 3} {
					f2 = append(f2, frames.Build(frames.H{ID: ids[i], Phone: phone2, Serial: uint16(10*i) + no, Frag: true, Sum: 3, No: no}, r.Bytes(20))...)
				}
			}
			hb2 := frames.Build(frames.H{ID: 0x0002, Phone: phone2, Serial: 999}, nil)
			emit(fw.Case{Op: "rereqcmd", Args: []string{encodeSession([]pchunk{{0, f2}, {5200, hb2}})}})
		}
	}
}
