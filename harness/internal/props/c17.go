package props

import (
	"errors"
	"fmt"
	"strings"

	"github.com/cuteLittleDevil/go-jt808/protocol/jt1078"
	"verif/harness/internal/fw"
)

type rtpPkt struct {
	v, p, x, cc, m, pt int
	seq                int
	sim                []byte
	ch, dt, sub        int
	ts                 uint64
	lifi, lfi          int
	body               []byte
}

// encodeRTP lays a packet out as table 19 of JT/T 1078 prescribes (harness-side, from the standard).
func encodeRTP(p rtpPkt) []byte {
	d := []byte{0x30, 0x31, 0x63, 0x64, byte(p.v<<6 | p.p<<5 | p.x<<4 | p.cc), byte(p.m<<7 | p.pt), byte(p.seq >> 8), byte(p.seq)}
	d = append(d, p.sim...)
	d = append(d, byte(p.ch), byte(p.dt<<4|p.sub))
	if p.dt != 4 {
		for i := 7; i >= 0; i-- {
			d = append(d, byte(p.ts>>(8*uint(i))))
		}
	}
	if p.dt <= 2 {
		d = append(d, byte(p.lifi>>8), byte(p.lifi), byte(p.lfi>>8), byte(p.lfi))
	}
	d = append(d, byte(len(p.body)>>8), byte(len(p.body)))
	return append(d, p.body...)
}

func showRTPFields(v, p, x, cc, m, pt, seq int, sim string, ch, dt, sub int, ts uint64, lifi, lfi int, body []byte) string {
	return fmt.Sprintf("v=%d p=%d x=%d cc=%d m=%d pt=%d seq=%d sim=%s ch=%d dt=%d sub=%d ts=%d lifi=%d lfi=%d len=%d body=%s",
		v, p, x, cc, m, pt, seq, sim, ch, dt, sub, ts, lifi, lfi, len(body), fw.Hex(body))
}

func rtpErrClass(err error) string {
	switch {
	case errors.Is(err, jt1078.ErrHeaderLength2Short), errors.Is(err, jt1078.ErrBodyLength2Short):
		return "short"
	case errors.Is(err, jt1078.ErrUnqualifiedData):
		return "unq"
	}
	return "err"
}

func execRTP(data []byte) string {
	pk := jt1078.NewPacket()
	rest, err := pk.Decode(fw.Exact(data))
	if err != nil {
		return rtpErrClass(err)
	}
	return "ok " + showRTPFields(int(pk.Flag.V), int(pk.Flag.P), int(pk.Flag.X), int(pk.Flag.CC), int(pk.Flag.M), int(pk.Flag.PT),
		int(pk.Seq), pk.Sim, int(pk.LogicChannel), int(pk.DataType), int(pk.SubcontractType), pk.Timestamp,
		int(pk.LastIFrameInterval), int(pk.LastFrameInterval), pk.Body) + " rest=" + fw.Hex(rest)
}

// execRTPAll iterates Decode from the front with a fresh Packet per step.
func execRTPAll(data []byte) string {
	var parts []string
	cur := fw.Exact(data)
	for steps := 0; steps < 100000; steps++ {
		pk := jt1078.NewPacket()
		rest, err := pk.Decode(cur)
		if err != nil {
			return fmt.Sprintf("n=%d %s end=%s left=%s", len(parts), strings.Join(parts, ";"), rtpErrClass(err), fw.Hex(cur))
		}
		parts = append(parts, fmt.Sprintf("%d/%d/%d/%d", pk.Seq, int(pk.DataType), len(pk.Body), pk.Timestamp))
		cur = rest
	}
	return "loop"
}

// execRTPSeq iterates Decode with ONE Packet object reused for every step (as a stream reader would).
func execRTPSeq(data []byte) string {
	var parts []string
	cur := fw.Exact(data)
	pk := jt1078.NewPacket()
	// the way a stream reader uses one Packet: what has arrived so far is decoded from the front, ends in "body too short"
	// (or "head too short") somewhere, and is decoded again when more has arrived. The earlier attempts on prefixes of the
	// stream must leave nothing behind in the Packet: only the last pass, over the whole stream, is reported.
	for _, cut := range []int{len(data) / 3, 2 * len(data) / 3, len(data) - 1} {
		if cut <= 0 || cut >= len(data) {
			continue
		}
		pre := fw.Exact(data[:cut])
		for steps := 0; steps < 100000; steps++ {
			rest, err := pk.Decode(pre)
			if err != nil || len(rest) == 0 {
				break
			}
			pre = rest
		}
	}
	for steps := 0; steps < 100000; steps++ {
		rest, err := pk.Decode(cur)
		if err != nil {
			return fmt.Sprintf("n=%d %s end=%s", len(parts), strings.Join(parts, ";"), rtpErrClass(err))
		}
		parts = append(parts, fmt.Sprintf("%d/%d/%d/%d/%d/%d/%d", pk.Seq, int(pk.DataType), int(pk.SubcontractType), len(pk.Body), pk.Timestamp, int(pk.LastIFrameInterval), int(pk.LastFrameInterval)))
		cur = rest
	}
	return "loop"
}

func wantRTP(p rtpPkt, rest []byte) string {
	ts, lifi, lfi := p.ts, p.lifi, p.lfi
	if p.dt == 4 {
		ts = 0
	}
	if p.dt > 2 {
		lifi, lfi = 0, 0
	}
	return "ok " + showRTPFields(p.v, p.p, p.x, p.cc, p.m, p.pt, p.seq, phoneStr(p.sim), p.ch, p.dt, p.sub, ts, lifi, lfi, p.body) + " rest=" + fw.Hex(rest)
}

func randRTP(r *fw.Rng) rtpPkt {
	p := rtpPkt{v: r.Intn(4), p: r.Intn(2), x: r.Intn(2), cc: r.Intn(16), m: r.Intn(2), pt: r.Intn(128),
		seq: int(r.U64() & 0xffff), ch: r.Intn(256), dt: r.Intn(16), sub: r.Intn(16), ts: r.U64(),
		lifi: int(r.U64() & 0xffff), lfi: int(r.U64() & 0xffff)}
	if r.Chance(40) {
		p.dt = r.Pick([]int{0, 1, 2, 3, 4})
	}
	if r.Chance(30) {
		p.v, p.p, p.x, p.cc = 2, 0, 0, 1
	}
	if r.Chance(15) {
		p.ts = uint64(r.Pick([]int{0, 1, 255, 256})) | uint64(r.Intn(2))<<63
	}
	p.sim = make([]byte, 6)
	switch r.Intn(3) {
	case 0:
	case 1:
		copy(p.sim, r.Bytes(6))
	default:
		for i := range p.sim {
			p.sim[i] = byte(r.Intn(10)<<4 | r.Intn(10))
		}
	}
	var n int
	switch r.Intn(6) {
	case 0:
		n = r.Pick([]int{0, 1, 949, 950, 951})
	case 1:
		n = r.Intn(20)
	case 2:
		n = 951 + r.Intn(3000)
	default:
		n = r.Intn(951)
	}
	p.body = r.Bytes(n)
	if r.Chance(20) && n >= 4 {
		copy(p.body, []byte{0x30, 0x31, 0x63, 0x64}) // payload that looks like a marker
	}
	return p
}

func enc(s string) string { return strings.ReplaceAll(s, " ", "|") }

func genC17(r *fw.Rng, tier string, emit func(fw.Case)) {
	n := 4000
	if tier == "thorough" {
		n = 60000
	}
	for i := 0; i < n; i++ {
		k := 1 + r.Intn(4)
		var pk []rtpPkt
		var stream []byte
		var sum []string
		for j := 0; j < k; j++ {
			p := randRTP(r)
			pk = append(pk, p)
			stream = append(stream, encodeRTP(p)...)
			ts := p.ts
			if p.dt == 4 {
				ts = 0
			}
			sum = append(sum, fmt.Sprintf("%d/%d/%d/%d", p.seq, p.dt, len(p.body), ts))
		}
		first := encodeRTP(pk[0])
		emit(fw.Case{Op: "rtpv", Args: []string{fw.Hex(stream), enc(wantRTP(pk[0], stream[len(first):]))}})
		emit(fw.Case{Op: "rtpallv", Args: []string{fw.Hex(stream), enc(fmt.Sprintf("n=%d %s end=short left=-", k, strings.Join(sum, ";")))}})
		// cuts: a few random lengths, the boundary ones around the header end, and (for short packets) every length
		cuts := []int{r.Intn(len(first)), len(first) - 1, 15, 16, 17, 18, 25, 26, 27, 29, 30}
		if len(first) < 60 || (tier == "thorough" && i%50 == 0) {
			for c := 0; c < len(first); c++ {
				cuts = append(cuts, c)
			}
		}
		for _, c := range cuts {
			if c >= 0 && c < len(first) {
				emit(fw.Case{Op: "rtpv", Args: []string{fw.Hex(first[:c]), "short"}})
			}
		}
		// stream cut inside a later packet: iteration yields the complete ones, then short, leaving the partial packet
		if k > 1 {
			lastStart := len(stream) - len(encodeRTP(pk[k-1]))
			c := lastStart + r.Intn(len(stream)-lastStart)
			emit(fw.Case{Op: "rtpallv", Args: []string{fw.Hex(stream[:c]), enc(fmt.Sprintf("n=%d %s end=short left=%s", k-1, strings.Join(sum[:k-1], ";"), fw.Hex(stream[lastStart:c])))}})
		}
		// marker damage: >= 16 bytes not starting with 30316364
		g := append([]byte{}, first...)
		g[r.Intn(4)] ^= byte(1 + r.Intn(255))
		if len(g) >= 16 {
			emit(fw.Case{Op: "rtpv", Args: []string{fw.Hex(g), "unq"}})
		}
	}
	// arbitrary strings
	m := 3000
	if tier == "thorough" {
		m = 60000
	}
	for i := 0; i < m; i++ {
		n := r.Intn(64)
		s := r.Bytes(n)
		if r.Chance(50) && n >= 4 {
			copy(s, []byte{0x30, 0x31, 0x63, 0x64})
		}
		want := ""
		if n < 16 {
			want = "short"
		} else if string(s[:4]) != "01cd" {
			want = "unq"
		}
		if want != "" {
			emit(fw.Case{Op: "rtpv", Args: []string{fw.Hex(s), want}})
		} else {
			emit(fw.Case{Op: "rtp", Args: []string{fw.Hex(s)}})
		}
		emit(fw.Case{Op: "rtpall", Args: []string{fw.Hex(s)}})
	}
	// payload-length fields near the top of the 16-bit range: header length + length does not fit 16 bits; truncated
	// (must be "short") and complete, followed by a second packet
	for _, dt := range []int{0, 3, 4, 7} {
		for _, bl := range []int{65505, 65506, 65510, 65518, 65534, 65535} {
			p := randRTP(r)
			p.dt = dt
			p.body = make([]byte, bl)
			for i := 0; i < len(p.body); i += 97 {
				p.body[i] = byte(i)
			}
			full := encodeRTP(p)
			emit(fw.Case{Op: "rtp", Args: []string{fw.Hex(full[:len(full)-bl+20])}}) // truncated payload
			if dt == 0 || tier == "thorough" {
				q := randRTP(r)
				q.body = []byte{1, 2, 3}
				emit(fw.Case{Op: "rtpall", Args: []string{fw.Hex(append(append([]byte{}, full...), encodeRTP(q)...))}})
			}
		}
	}
	// one Packet object reused for a whole stream: video packets (time stamp and both intervals non-zero) followed by
	// audio / transparent packets and back — nothing of an earlier packet may show in a later one
	nr := 300
	if tier == "thorough" {
		nr = 6000
	}
	for i := 0; i < nr; i++ {
		var stream []byte
		for j := 0; j < 2+r.Intn(4); j++ {
			p := randRTP(r)
			p.dt = []int{0, 1, 2, 3, 4, 3, 4}[(j+i)%7]
			if r.Chance(20) {
				p.dt = r.Intn(16)
			}
			if p.lifi == 0 {
				p.lifi = 1 + r.Intn(60000)
			}
			if p.lfi == 0 {
				p.lfi = 1 + r.Intn(60000)
			}
			stream = append(stream, encodeRTP(p)...)
		}
		emit(fw.Case{Op: "rtpseq", Args: []string{fw.Hex(stream)}})
	}
}

func oracleC17(c fw.Case) *fw.OracleFailure {
	var got string
	switch c.Op {
	case "rtpv":
		got = fw.SafeExec(func() string { return execRTP(fw.UnHex(c.Args[0])) })
	case "rtpallv":
		got = fw.SafeExec(func() string { return execRTPAll(fw.UnHex(c.Args[0])) })
	default:
		return nil
	}
	want := strings.ReplaceAll(c.Args[1], "|", " ")
	if got != want {
		return &fw.OracleFailure{Sig: "jt1078.Decode/" + c.Op + "-want-" + strings.SplitN(want, " ", 2)[0] + "-got-" + strings.SplitN(got, " ", 2)[0],
			Msg: "standard layout not honoured: want " + trunc(want, 300) + " got " + trunc(got, 300)}
	}
	return nil
}

var C17 = &fw.Prop{ID: "C17", Gen: genC17, Oracle: oracleC17,
	Exec: func(c fw.Case) string {
		switch c.Op {
		case "rtp", "rtpv":
			return execRTP(fw.UnHex(c.Args[0]))
		case "rtpall", "rtpallv":
			return execRTPAll(fw.UnHex(c.Args[0]))
		case "rtpseq":
			return execRTPSeq(fw.UnHex(c.Args[0]))
		}
		return "bad-op"
	},
	Class: func(c fw.Case, res string) string {
		h := strings.SplitN(res, " ", 2)[0]
		if h == "ok" {
			if i := strings.Index(res, " dt="); i >= 0 {
				return c.Op + ":ok:dt" + strings.SplitN(res[i+4:], " ", 2)[0]
			}
		}
		return c.Op + ":" + h
	}}
