package props

import (
	"bytes"
	"crypto/sha256"
	"encoding/hex"
	"fmt"
	"os"
	"path/filepath"
	"strconv"
	"strings"
	"sync"
	"time"

	"github.com/cuteLittleDevil/go-jt808/protocol/model"
	"github.com/cuteLittleDevil/go-jt808/shared/consts"
	"verif/harness/internal/frames"
	"verif/harness/internal/fw"
	"verif/harness/internal/sock"
)

// ---- attachment server subprocess ---------------------------------------------------------------

var (
	attMu   sync.Mutex
	attSrv  *sock.Server
	attType int
	attDir  string
)

func attServer(astype int) (*sock.Server, string, error) {
	attMu.Lock()
	defer attMu.Unlock()
	if attSrv != nil && attSrv.Alive() && attType == astype {
		return attSrv, attDir, nil
	}
	attStopLocked()
	dir, err := os.MkdirTemp("/var/tmp", "verif-att-")
	if err != nil {
		return nil, "", err
	}
	cwd := filepath.Join(dir, "w1", "w2", "w3", "w4", "cwd")
	if err := os.MkdirAll(cwd, 0o755); err != nil {
		return nil, "", err
	}
	s, err := sock.StartServer(sysdBin(), "-mode", "attach", "-astype", strconv.Itoa(astype), "-cwd", cwd)
	if err != nil {
		os.RemoveAll(dir)
		return nil, "", err
	}
	attSrv, attType, attDir = s, astype, dir
	return s, dir, nil
}

func attStopLocked() {
	if attSrv != nil {
		attSrv.Stop()
		attSrv = nil
	}
	if attDir != "" {
		os.RemoveAll(attDir)
		attDir = ""
	}
}

func attStopAll() {
	attMu.Lock()
	defer attMu.Unlock()
	attStopLocked()
}

// ---- building the upload stream from the standard -------------------------------------------------

type attFile struct {
	name    []byte
	content []byte
}

func attAlarmSign(astype int, r *fw.Rng) model.P9208AlarmSign {
	return model.P9208AlarmSign{ActiveSafetyType: consts.ActiveSafetyType(astype), TerminalID: "T" + strconv.Itoa(r.Intn(100000)),
		Time: "2024-01-02 03:04:05", SerialNumber: byte(r.Intn(256)), AttachNumber: 1}
}

func att1210(astype int, files []attFile, alarmID string, r *fw.Rng) []byte {
	t := model.T0x1210{TerminalID: "TID" + strconv.Itoa(r.Intn(1000)), P9208AlarmSign: attAlarmSign(astype, r), AlarmID: alarmID,
		InfoType: 0, AttachCount: byte(len(files))}
	for _, f := range files {
		t.T0x1210AlarmItemList = append(t.T0x1210AlarmItemList, model.T0x1210AlarmItem{FileNameLen: byte(len(f.name)), FileName: string(f.name), FileSize: uint32(len(f.content))})
	}
	return t.Encode()
}

func att1211(f attFile, ftype byte) []byte {
	b := []byte{byte(len(f.name))}
	b = append(b, f.name...)
	b = append(b, ftype, byte(len(f.content)>>24), byte(len(f.content)>>16), byte(len(f.content)>>8), byte(len(f.content)))
	return b
}

// attChunk lays out a chunk header: 30316364, name (50 bytes NUL padded; HLJ: length byte + name), offset, length, data.
func attChunk(astype int, f attFile, off, ln int) []byte {
	b := []byte{0x30, 0x31, 0x63, 0x64}
	if astype == int(consts.ActiveSafetyHLJ) {
		b = append(b, byte(len(f.name)))
		b = append(b, f.name...)
	} else {
		n := make([]byte, 50)
		copy(n, f.name)
		b = append(b, n...)
	}
	b = append(b, byte(off>>24), byte(off>>16), byte(off>>8), byte(off), byte(ln>>24), byte(ln>>16), byte(ln>>8), byte(ln))
	return append(b, f.content[off:off+ln]...)
}

// ---- scenario: "att <astype> <cutseed> <files> <events>" ------------------------------------------------------
// files  = namehex:contenthex;...      events = A | B<i> | K<i>:<off>:<len> | E<i>   (comma separated)
// result = replies=[8001,8001,9212/0,9212/1/off:len+off:len,...] files=[<i>:complete|incomplete:ok|bad|-,...]

func parseAttFiles(s string) []attFile {
	var out []attFile
	for _, p := range strings.Split(s, ";") {
		a := strings.Split(p, ":")
		out = append(out, attFile{fw.UnHex(a[0]), fw.UnHex(a[1])})
	}
	return out
}

var attPhoneN int

func runAtt(astype int, cutSeed uint64, files []attFile, events []string, alarmID string) (string, *fw.OracleFailure) {
	srv, _, err := attServer(astype)
	if err != nil {
		return "server-start-failed", &fw.OracleFailure{Sig: "server/start", Msg: err.Error()}
	}
	r := fw.NewRng(cutSeed)
	attPhoneN++
	phone := []byte{0x01, 0x55, byte(attPhoneN / 10000 % 100), byte(attPhoneN / 100 % 100), byte(attPhoneN % 100), 0x09}
	for i := range phone[2:5] {
		v := phone[2+i]
		phone[2+i] = v/10<<4 | v%10
	}
	serial := uint16(1)
	frame := func(id uint16, body []byte) []byte {
		f := frames.Build(frames.H{ID: id, Phone: phone, Serial: serial}, body)
		serial++
		return f
	}
	var stream []byte
	nControl := 0
	type ctl struct{ id, serial uint16 }
	var ctls []ctl
	for _, ev := range events {
		if ev[0] == 'A' || ev[0] == 'B' || ev[0] == 'E' {
			ctls = append(ctls, ctl{map[byte]uint16{'A': 0x1210, 'B': 0x1211, 'E': 0x1212}[ev[0]], serial})
		}
		switch ev[0] {
		case 'A':
			stream = append(stream, frame(0x1210, att1210(astype, files, alarmID, r))...)
			nControl++
		case 'B':
			i, _ := strconv.Atoi(ev[1:])
			stream = append(stream, frame(0x1211, att1211(files[i], byte(i%5)))...)
			nControl++
		case 'E':
			i, _ := strconv.Atoi(ev[1:])
			stream = append(stream, frame(0x1212, att1211(files[i], byte(i%5)))...)
			nControl++
		case 'K':
			a := strings.Split(ev[1:], ":")
			i, _ := strconv.Atoi(a[0])
			off, _ := strconv.Atoi(a[1])
			ln, _ := strconv.Atoi(a[2])
			stream = append(stream, attChunk(astype, files[i], off, ln)...)
		}
	}
	mark := srv.Len()
	cl, err := sock.Dial(srv.Addr())
	if err != nil {
		return "scenario-failed:server/refuses-connection", &fw.OracleFailure{Sig: "server/refuses-connection", Msg: err.Error()}
	}
	// random partition of the byte stream into writes (cutSeed 0: one write per event boundary is not available
	// at this level, so 0 means a single write)
	var chunks [][]byte
	if cutSeed == 0 {
		chunks = [][]byte{stream}
	} else {
		s := stream
		for len(s) > 0 {
			n := 1 + r.Intn(r.Pick([]int{3, 40, 400, 5000}))
			if n > len(s) {
				n = len(s)
			}
			chunks = append(chunks, s[:n])
			s = s[n:]
		}
	}
	pause := time.Duration(0)
	if len(chunks) < 60 {
		pause = 300 * time.Microsecond
	}
	_ = cl.SendChunks(chunks, pause)
	replies := cl.ReadFrames(nControl, 3*time.Second)
	cl.Close()
	// the quit event of this connection closes the scenario
	quit, _, gotQuit := srv.WaitForFrom(mark, func(e sock.Event) bool {
		return sock.Str(e, "event") == "file-event" && (sock.Str(e, "stageName") == "success-quit" || sock.Str(e, "stageName") == "fail-quit") && !sock.Bool(e, "probe")
	}, 3*time.Second)
	if !srv.Ping(2 * time.Second) {
		_, code, tail := srv.ExitInfo()
		return "scenario-failed:server/died", &fw.OracleFailure{Sig: "attach-server/died", Msg: fmt.Sprintf("attachment server exited with code %d: %s", code, lastLines(tail, 6))}
	}
	var rs []string
	var addrOrc *fw.OracleFailure
	for k, f := range replies {
		h, body, ok := frames.Parse(f)
		if !ok {
			rs = append(rs, "undecodable")
			continue
		}
		// the prescribed reply is addressed to the terminal that sent the control frame and, for the general response,
		// echoes that frame's serial number and id with result 0
		if k < len(ctls) && addrOrc == nil {
			if !bytes.Equal(h.Phone, phone) {
				addrOrc = &fw.OracleFailure{Sig: "attach/reply-addressing", Msg: fmt.Sprintf("reply %d (0x%04x) is addressed to phone %x, the control frame came from %x", k, h.ID, h.Phone, phone)}
			} else if h.ID == 0x8001 && (len(body) != 5 || be(body[0:2]) != uint64(ctls[k].serial) || be(body[2:4]) != uint64(ctls[k].id) || body[4] != 0) {
				addrOrc = &fw.OracleFailure{Sig: "attach/reply-echo", Msg: fmt.Sprintf("reply %d: general response %x does not echo serial %d and id 0x%04x with result 0", k, body, ctls[k].serial, ctls[k].id)}
			}
		}
		if h.ID == 0x9212 && len(body) >= 4 {
			l := int(body[0])
			if len(body) >= 4+l {
				res, cnt := body[2+l], int(body[3+l])
				s := fmt.Sprintf("9212/%d", res)
				var rg []string
				rest := body[4+l:]
				for k := 0; k < cnt && len(rest) >= 8; k++ {
					rg = append(rg, fmt.Sprintf("%d:%d", be(rest[0:4]), be(rest[4:8])))
					rest = rest[8:]
				}
				if len(rg) > 0 {
					s += "/" + strings.Join(rg, "+")
				}
				rs = append(rs, s)
				continue
			}
		}
		rs = append(rs, fmt.Sprintf("%04x", h.ID))
	}
	// per file: complete? content identical?
	var fs []string
	orc := addrOrc
	if !gotQuit {
		return fmt.Sprintf("replies=[%s] files=[no-quit-event]", strings.Join(rs, ",")), &fw.OracleFailure{Sig: "attach/no-quit", Msg: "the connection handler did not finish within 3 s after the client closed"}
	}
	recs := map[string]map[string]any{}
	if arr, ok := quit["record"].([]any); ok {
		for _, x := range arr {
			if m, ok := x.(map[string]any); ok {
				recs[sock.Str(m, "name")] = m
			}
		}
	}
	for i, f := range files {
		m := recs[hex.EncodeToString(f.name)]
		if m == nil {
			fs = append(fs, fmt.Sprintf("%d:unknown:-", i))
			continue
		}
		st := "incomplete"
		ok := "-"
		if sock.Bool(m, "complete") {
			st = "complete"
			sum := sha256.Sum256(f.content)
			if sock.Str(m, "bodySha256") == hex.EncodeToString(sum[:]) && sock.Int(m, "bodyLen") == len(f.content) {
				ok = "ok"
			} else {
				ok = "bad"
				orc = &fw.OracleFailure{Sig: "attach/content", Msg: fmt.Sprintf("file %d (%d bytes) reported complete but its reassembled content differs (len %d)", i, len(f.content), sock.Int(m, "bodyLen"))}
			}
		}
		fs = append(fs, fmt.Sprintf("%d:%s:%s", i, st, ok))
	}
	return fmt.Sprintf("replies=[%s] files=[%s]", strings.Join(rs, ","), strings.Join(fs, ",")), orc
}

// specAtt: what the property prescribes for a scenario built from a partition (harness side).
func specAtt(files []attFile, events []string) string {
	type st struct {
		got map[int]int // offset -> len
	}
	states := make([]st, len(files))
	for i := range states {
		states[i].got = map[int]int{}
	}
	var rs []string
	for _, ev := range events {
		switch ev[0] {
		case 'A', 'B':
			rs = append(rs, "8001")
		case 'K':
			a := strings.Split(ev[1:], ":")
			i, _ := strconv.Atoi(a[0])
			off, _ := strconv.Atoi(a[1])
			ln, _ := strconv.Atoi(a[2])
			states[i].got[off] = ln
		case 'E':
			i, _ := strconv.Atoi(ev[1:])
			var segs []seg
			for o, l := range states[i].got {
				segs = append(segs, seg{o, l})
			}
			miss := bruteMissing(len(files[i].content), segs)
			if len(miss) == 0 {
				rs = append(rs, "9212/0")
			} else {
				var rg []string
				for _, g := range miss {
					rg = append(rg, fmt.Sprintf("%d:%d", g.off, g.ln))
				}
				rs = append(rs, "9212/1/"+strings.Join(rg, "+"))
			}
		}
	}
	var fs []string
	for i, f := range files {
		var segs []seg
		for o, l := range states[i].got {
			segs = append(segs, seg{o, l})
		}
		if len(bruteMissing(len(f.content), segs)) == 0 && len(f.content) > 0 {
			fs = append(fs, fmt.Sprintf("%d:complete:ok", i))
		} else {
			fs = append(fs, fmt.Sprintf("%d:incomplete:-", i))
		}
	}
	return fmt.Sprintf("replies=[%s] files=[%s]", strings.Join(rs, ","), strings.Join(fs, ","))
}

func genC15(r *fw.Rng, tier string, emit func(fw.Case)) {
	n := 12
	if tier == "thorough" {
		n = 150
	}
	for astype := 1; astype <= 5; astype++ {
		for i := 0; i < n; i++ {
			nf := 1 + r.Intn(3)
			var files []attFile
			for k := 0; k < nf; k++ {
				name := []byte(fmt.Sprintf("f%d_%d.jpg", i, k))
				switch r.Intn(5) {
				case 0:
					name = append([]byte("01cd"), name...) // the chunk marker inside a name
				case 1:
					name = r.Bytes(1 + r.Intn(30))
					for j := range name {
						if name[j] == 0 || name[j] == '/' {
							name[j] = 'x'
						}
					}
				}
				if len(name) > 50 {
					name = name[:50]
				}
				size := r.Pick([]int{1, 2, 7, 100, 1000, 3000, 70000})
				if r.Chance(50) {
					size = 1 + r.Intn(4000)
				}
				content := r.Bytes(size)
				if r.Chance(20) && size >= 8 {
					copy(content[r.Intn(size-4):], []byte{0x30, 0x31, 0x63, 0x64})
				}
				files = append(files, attFile{name, content})
			}
			// distinct names
			seen := map[string]bool{}
			for k := range files {
				for seen[string(files[k].name)] {
					files[k].name = append(files[k].name, 'z')
				}
				seen[string(files[k].name)] = true
			}
			events := []string{"A"}
			for k, f := range files {
				events = append(events, fmt.Sprintf("B%d", k))
				// partition into chunks
				var parts []seg
				off := 0
				for off < len(f.content) {
					l := 1 + r.Intn(r.Pick([]int{2, 200, 1500, 65536}))
					if off+l > len(f.content) {
						l = len(f.content) - off
					}
					parts = append(parts, seg{off, l})
					off += l
				}
				for j := len(parts) - 1; j > 0; j-- { // arrival order
					x := r.Intn(j + 1)
					parts[j], parts[x] = parts[x], parts[j]
				}
				mode := r.Intn(4) // 0: all arrive; 1: some missing then E then resend then E; 2: duplicates; 3: missing, never resent
				var missing []seg
				for _, p := range parts {
					if (mode == 1 || mode == 3) && r.Chance(35) && len(parts) > 1 {
						missing = append(missing, p)
						continue
					}
					events = append(events, fmt.Sprintf("K%d:%d:%d", k, p.off, p.ln))
					if mode == 2 && r.Chance(40) {
						events = append(events, fmt.Sprintf("K%d:%d:%d", k, p.off, p.ln))
					}
				}
				events = append(events, fmt.Sprintf("E%d", k))
				if mode == 1 {
					for _, p := range missing {
						events = append(events, fmt.Sprintf("K%d:%d:%d", k, p.off, p.ln))
					}
					events = append(events, fmt.Sprintf("E%d", k))
				}
			}
			// other orders a terminal may use: every 0x1211 up front, or none at all (the 0x1211 is informational: the
			// records come from the 0x1210); a 0x1212 then names a file that is not the one announced last
			switch r.Intn(4) {
			case 0: // all B tokens first
				var bs, rest []string
				for _, e := range events[1:] {
					if e[0] == 'B' {
						bs = append(bs, e)
					} else {
						rest = append(rest, e)
					}
				}
				events = append(append([]string{"A"}, bs...), rest...)
			case 1: // no B tokens
				var rest []string
				for _, e := range events {
					if e[0] != 'B' {
						rest = append(rest, e)
					}
				}
				events = rest
			}
			if r.Chance(15) {
				// a terminal that resumes: the first control frame of the connection is a 0x1211, the 0x1210 follows
				events = append([]string{"B0"}, events...)
			}
			var fsS []string
			for _, f := range files {
				fsS = append(fsS, fw.Hex(f.name)+":"+fw.Hex(f.content))
			}
			alarm := "ALARM" + strconv.Itoa(i)
			if r.Chance(30) {
				alarm = "x01cdx" + strconv.Itoa(i) // the chunk marker inside the alarm id
			}
			cut := r.U64()%1000000 + 1
			if r.Chance(15) {
				cut = 0
			}
			emit(fw.Case{Op: "att", Args: []string{strconv.Itoa(astype), strconv.FormatUint(cut, 10), strings.Join(fsS, ";"), strings.Join(events, ","), alarm}})
		}
	}
}

var attLast struct {
	key string
	orc *fw.OracleFailure
}

func execAtt(c fw.Case) string {
	astype, _ := strconv.Atoi(c.Args[0])
	cut, _ := strconv.ParseUint(c.Args[1], 10, 64)
	files := parseAttFiles(c.Args[2])
	events := strings.Split(c.Args[3], ",")
	res, o := runAtt(astype, cut, files, events, c.Args[4])
	if o == nil {
		if want := specAtt(files, events); want != res {
			o = &fw.OracleFailure{Sig: "attach/" + attDiffKind(res, want), Msg: "prescribed: " + trunc(want, 400) + " observed: " + trunc(res, 400)}
		}
	}
	attLast.key, attLast.orc = strings.Join(c.Args, " "), o
	return res
}

func attDiffKind(got, want string) string {
	g := strings.SplitN(got, " files=", 2)
	w := strings.SplitN(want, " files=", 2)
	if len(g) == 2 && len(w) == 2 {
		if g[0] != w[0] {
			if strings.Count(g[0], ",") != strings.Count(w[0], ",") {
				return "reply-count"
			}
			return "reply"
		}
		return "file-state"
	}
	return "result"
}

// the connection loop itself (classification of the buffered bytes, stage sequence) against the AttStream model:
// valid sessions and mutations of them, every stream cut into random writes
// headerCutSessions: a file whose name, chunk offsets and lengths contain the byte 0x7e, every chunk header cut in two
// at several places (after 10..60 header bytes): a partially received chunk header must wait for the rest, whatever
// bytes it contains
func headerCutSessions(r *fw.Rng, emit func(fw.Case)) {
	for astype := 1; astype <= 5; astype++ {
		f := attFile{[]byte("a~b~.bin"), r.Bytes(126 + 0x7e + 40)}
		phone := c10Phone()
		var stream []byte
		var headerStarts []int
		serial := uint16(1)
		fr := func(id uint16, body []byte) {
			stream = append(stream, frames.Build(frames.H{ID: id, Phone: phone, Serial: serial}, body)...)
			serial++
		}
		fr(0x1210, att1210(astype, []attFile{f}, "AL~", r))
		fr(0x1211, att1211(f, 0))
		for _, ch := range [][2]int{{0, 126}, {126, 0x7e}, {126 + 0x7e, 40}} {
			headerStarts = append(headerStarts, len(stream))
			stream = append(stream, attChunk(astype, f, ch[0], ch[1])...)
		}
		fr(0x1212, att1211(f, 0))
		for _, k := range []int{10, 12, 17, 30, 57, 60} {
			var cuts []string
			for _, hs := range headerStarts {
				cuts = append(cuts, strconv.Itoa(hs+k))
			}
			emit(fw.Case{Op: "astream", Args: []string{strconv.Itoa(astype), "c:" + strings.Join(cuts, "."), fw.Hex(stream)}})
		}
	}
}

func genC15Stream(r *fw.Rng, tier string, emit func(fw.Case)) {
	headerCutSessions(r, emit)
	n := 4
	if tier == "thorough" {
		n = 40
	}
	for astype := 1; astype <= 5; astype++ {
		for i := 0; i < n; i++ {
			s, pieces := attValidSession(astype, r)
			for k := 0; k < 3; k++ {
				emit(fw.Case{Op: "astream", Args: []string{strconv.Itoa(astype), strconv.Itoa(1 + r.Intn(1000000)), fw.Hex(s)}})
			}
			emit(fw.Case{Op: "astream", Args: []string{strconv.Itoa(astype), strconv.Itoa(1 + r.Intn(1000000)), fw.Hex(mutateStream(r, s, pieces))}})
		}
	}
}

var C15 = &fw.Prop{ID: "C15",
	Gen: func(r *fw.Rng, tier string, emit func(fw.Case)) {
		genC15(r, tier, emit)
		genC15Stream(r, tier, emit)
	},
	Exec: func(c fw.Case) string {
		if c.Op == "astream" {
			return execC10(c)
		}
		return execAtt(c)
	},
	Oracle: func(c fw.Case) *fw.OracleFailure {
		if c.Op == "astream" {
			if c10Last.key != c.Op+" "+strings.Join(c.Args, " ") {
				execC10(c)
			}
			return c10Last.orc
		}
		if attLast.key == strings.Join(c.Args, " ") {
			return attLast.orc
		}
		execAtt(c)
		return attLast.orc
	},
	Class: func(c fw.Case, res string) string {
		if c.Op == "astream" {
			return "astream:as" + c.Args[0]
		}
		cl := "att:as" + c.Args[0]
		if strings.Contains(res, "9212/1") {
			cl += ":retransmit"
		}
		if strings.Contains(res, ":complete:ok") {
			cl += ":complete"
		}
		if strings.Contains(res, "incomplete") {
			cl += ":incomplete"
		}
		return cl
	}}
