package props

import (
	"fmt"
	"strings"

	"verif/harness/internal/frames"
	"verif/harness/internal/fw"
)

// sessionFrames recovers the frames of a session whose concatenated reads are a sequence of valid frames.
func sessionFrames(cs []pchunk) ([]finfo, bool) {
	var all []byte
	for _, c := range cs {
		all = append(all, c.data...)
	}
	parts, ok := frames.SplitStream(all)
	if !ok {
		return nil, false
	}
	var fs []finfo
	for _, p := range parts {
		h, body, ok := frames.Parse(p)
		if !ok {
			return nil, false
		}
		fs = append(fs, finfo{h: h, body: body, bytes: p})
	}
	return fs, true
}

// oracleParse evaluates C04/C05/C14 on the implementation for sessions made of valid frames.
func oracleParse(c fw.Case) *fw.OracleFailure {
	if c.Op != "psess" {
		return nil
	}
	cs := decodeSession(c.Args[0])
	fs, ok := sessionFrames(cs)
	if !ok {
		return nil // not a stream of valid frames: outside these properties
	}
	res := fw.SafeExec(func() string { return runSession(cs) })
	if res == "panic" {
		return &fw.OracleFailure{Sig: "parse/panic", Msg: "packageParse.parse panicked on a stream of valid frames"}
	}
	got, errored, hist, ok := implEvents(res)
	if !ok {
		return &fw.OracleFailure{Sig: "parse/unreadable", Msg: res}
	}
	if errored {
		return &fw.OracleFailure{Sig: "parse/error", Msg: "parse returned an error on a stream of valid frames: " + trunc(res, 300)}
	}
	want := specRun(fs, cs)
	if len(got) != len(want) {
		return &fw.OracleFailure{Sig: "parse/reads", Msg: fmt.Sprintf("%d reads answered, %d expected", len(got), len(want))}
	}
	for i := range want {
		if !sameStrs(got[i].plain, want[i].plain) {
			return &fw.OracleFailure{Sig: "parse/framing", Msg: fmt.Sprintf("read %d: frames extracted %v, expected %v (each frame exactly once, when its closing delimiter arrives)", i, got[i].plain, want[i].plain)}
		}
	}
	for i := range want {
		if !sameStrs(got[i].completes, want[i].completes) {
			return &fw.OracleFailure{Sig: "parse/reassembly", Msg: fmt.Sprintf("read %d: reassembled messages %s, expected %s", i, trunc(strings.Join(got[i].completes, " "), 300), trunc(strings.Join(want[i].completes, " "), 300))}
		}
	}
	for i := range want {
		if !sameStrs(got[i].reqs, want[i].reqs) {
			return &fw.OracleFailure{Sig: "parse/rerequest", Msg: fmt.Sprintf("read %d: re-requests (serial.count.list) %v, expected %v", i, got[i].reqs, want[i].reqs)}
		}
	}
	if hist != 0 {
		return &fw.OracleFailure{Sig: "parse/leftover", Msg: fmt.Sprintf("%d bytes left in the receive buffer after a whole number of frames", hist)}
	}
	return nil
}

// cutRandom partitions s into consecutive reads of 1..max bytes.
func cutRandom(r *fw.Rng, s []byte, max int) []pchunk {
	var out []pchunk
	for len(s) > 0 {
		n := 1 + r.Intn(max)
		if n > len(s) {
			n = len(s)
		}
		out = append(out, pchunk{0, s[:n]})
		s = s[n:]
	}
	return out
}

func cutAt(s []byte, cuts ...int) []pchunk {
	var out []pchunk
	prev := 0
	for _, c := range cuts {
		if c > prev && c < len(s) {
			out = append(out, pchunk{0, s[prev:c]})
			prev = c
		}
	}
	return append(out, pchunk{0, s[prev:]})
}

func unfragH(r *fw.Rng) frames.H {
	h := frames.RandH(r)
	h.Frag, h.Sum, h.No = false, 0, 0
	return h
}

func emitSess(emit func(fw.Case), cs []pchunk) {
	emit(fw.Case{Op: "psess", Args: []string{encodeSession(cs)}})
}

func genC04(r *fw.Rng, tier string, emit func(fw.Case)) {
	n := 1500
	if tier == "thorough" {
		n = 30000
	}
	for i := 0; i < n; i++ {
		k := 1 + r.Intn(6)
		var stream []byte
		for j := 0; j < k; j++ {
			max := 1023
			if r.Chance(60) {
				max = 30
			}
			stream = append(stream, frames.Build(unfragH(r), frames.RandBody(r, max))...)
		}
		switch r.Intn(6) {
		case 0: // byte by byte
			if len(stream) < 400 {
				emitSess(emit, cutRandom(r, stream, 1))
			} else {
				emitSess(emit, cutRandom(r, stream, 3))
			}
		case 1: // frame by frame
			parts, _ := frames.SplitStream(stream)
			var cs []pchunk
			for _, p := range parts {
				if len(p) > 1023 {
					cs = append(cs, cutRandom(r, p, 1023)...)
				} else {
					cs = append(cs, pchunk{0, p})
				}
			}
			emitSess(emit, cs)
		case 2: // coalesced as much as the read buffer allows
			var cs []pchunk
			s := stream
			for len(s) > 0 {
				n := 1023
				if n > len(s) {
					n = len(s)
				}
				cs = append(cs, pchunk{0, s[:n]})
				s = s[n:]
			}
			emitSess(emit, cs)
		case 3:
			emitSess(emit, cutRandom(r, stream, 8))
		default:
			emitSess(emit, cutRandom(r, stream, 1023))
		}
	}
	// the longest legal frames: bodies of 1000..1023 bytes that are all 0x7e / 0x7d / mixed (wire length > 2050 bytes),
	// between two short frames; reads of at most 1023 bytes with the last piece before the closing delimiter as large as
	// possible, cut just before / just after the closing delimiter, and byte by byte
	for _, fill := range [][]byte{{0x7e}, {0x7d}, {0x7e, 0x7d}, {0x7d, 0x7e, 0x7e}} {
		for _, bl := range []int{1000, 1010, 1023} {
			body := make([]byte, bl)
			for i := range body {
				body[i] = fill[i%len(fill)]
			}
			hb := frames.Build(unfragH(r), nil)
			big := frames.Build(unfragH(r), body)
			stream := append(append(append([]byte{}, hb...), big...), hb...)
			endBig := len(hb) + len(big) // index just after the closing delimiter of the long frame
			for _, tail := range []int{1, 2, 9, 40} {
				// ... 1023, 1023, <tail bytes up to just before the delimiter>, delimiter + rest
				var cuts []int
				for p := len(hb); p+1023 < endBig-1-tail; p += 1023 {
					cuts = append(cuts, p+1023)
				}
				cuts = append(cuts, endBig-1-tail, endBig-1)
				emitSess(emit, cutAt(stream, cuts...))
				emitSess(emit, cutAt(stream, append(cuts, endBig)...))
			}
			emitSess(emit, cutRandom(r, stream, 1023))
			if tier == "thorough" || bl == 1023 {
				emitSess(emit, cutRandom(r, stream, 1))
			}
		}
	}
	// exhaustive 1-cuts and 2-cuts of short streams
	m := 6
	lim := 60
	if tier == "thorough" {
		m, lim = 40, 120
	}
	for i := 0; i < m; i++ {
		var stream []byte
		for len(stream) < lim/2 {
			stream = append(stream, frames.Build(unfragH(r), frames.RandBody(r, 6))...)
		}
		if len(stream) > lim {
			continue
		}
		for a := 1; a < len(stream); a++ {
			emitSess(emit, cutAt(stream, a))
			for b := a + 1; b < len(stream); b++ {
				emitSess(emit, cutAt(stream, a, b))
			}
		}
	}
}

func classParse(c fw.Case, res string) string {
	cs := decodeSession(c.Args[0])
	_, valid := sessionFrames(cs)
	cl := "psess"
	if !valid {
		cl += ":invalid-stream"
	}
	switch {
	case len(cs) == 1:
		cl += ":1read"
	case len(cs) <= 3:
		cl += ":2-3reads"
	default:
		cl += ":many-reads"
	}
	if strings.Contains(res, "!E") {
		cl += ":err"
	}
	if evs, _, _, ok := implEvents(res); ok {
		nc, nr := 0, 0
		for _, e := range evs {
			nc += len(e.completes)
			nr += len(e.reqs)
		}
		if nc > 0 {
			cl += ":complete"
		}
		if nr > 0 {
			cl += ":rerequest"
		}
	}
	return cl
}

func execParse(c fw.Case) string {
	if c.Op != "psess" {
		return "bad-op"
	}
	return runSession(decodeSession(c.Args[0]))
}

var C04 = &fw.Prop{ID: "C04", Gen: genC04, Oracle: oracleParse, Exec: execParse, Class: classParse}
