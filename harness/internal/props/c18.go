package props

import (
	"fmt"
	"os"
	"path/filepath"
	"regexp"
	"sort"
	"strconv"
	"strings"
	"sync"
	"time"

	"github.com/cuteLittleDevil/go-jt808/protocol/jt808"
	"verif/harness/internal/frames"
	"verif/harness/internal/fw"
	"verif/harness/internal/sock"
)

// C18: the scenario kinds of C06/C09/C11/C12/C13 (conversations incl. sub-packages and parse errors, platform
// commands with answers / time-outs / disconnects, duplicate keys) on many connections in parallel with randomised
// timing, against a server built with Go's race detector.
//
//	race <variant default|slow|parseall> <workers> <rounds> <seed>   ->  "races=0" | "races=<n> <first report: top frames>"
//
// The Lean side answers "races=0" (what the field-partition and hand-over theorems predict).

func raceSysdBin() string {
	if b := os.Getenv("VERIF_SYSD_RACE"); b != "" {
		return b
	}
	return "/verif/.build/sysd-race"
}

var raceFrameRe = regexp.MustCompile(`(?m)^\s+(github\.com/cuteLittleDevil/go-jt808/[^\s(]+(?:\([^)]*\))?[^\s]*)\(\)\n\s+(\S+):(\d+)`)

func raceSignature(report string) string {
	// the first frame inside the repository of each of the two stacks
	parts := strings.Split(report, "\n\n")
	var tops []string
	for _, p := range parts {
		if !(strings.Contains(p, "by goroutine") || strings.Contains(p, "by main goroutine")) {
			continue
		}
		if m := raceFrameRe.FindStringSubmatch(p); m != nil {
			fn := m[1]
			fn = strings.TrimPrefix(fn, "github.com/cuteLittleDevil/go-jt808/")
			tops = append(tops, fn)
		}
		if len(tops) == 2 {
			break
		}
	}
	sort.Strings(tops)
	if len(tops) == 0 {
		return "unknown"
	}
	return strings.Join(tops, "|")
}

func execRace(c fw.Case) (string, *fw.OracleFailure) {
	variant := c.Args[0]
	workers, _ := strconv.Atoi(c.Args[1])
	rounds, _ := strconv.Atoi(c.Args[2])
	seed, _ := strconv.ParseUint(c.Args[3], 10, 64)
	if _, err := os.Stat(raceSysdBin()); err != nil {
		return "no-race-binary", &fw.OracleFailure{Sig: "race/no-binary", Msg: "the race-detector build of the server is missing: " + err.Error()}
	}
	dir, err := os.MkdirTemp("/var/tmp", "verif-race-")
	if err != nil {
		return "no-tmp", &fw.OracleFailure{Sig: "race/tmp", Msg: err.Error()}
	}
	defer os.RemoveAll(dir)
	os.Setenv("GORACE", "halt_on_error=0 log_path="+filepath.Join(dir, "race"))
	args := []string{"-mode", "jt808"}
	switch variant {
	case "slow":
		args = append(args, "-slow-write-ms", "1")
	case "parseall":
		args = append(args, "-parse-all")
	}
	srv, err := sock.StartServer(raceSysdBin(), args...)
	os.Unsetenv("GORACE")
	if err != nil {
		return "server-start-failed", &fw.OracleFailure{Sig: "server/start", Msg: err.Error()}
	}
	var wg sync.WaitGroup
	var tagMu sync.Mutex
	tagN := 0
	nextTag := func() string {
		tagMu.Lock()
		defer tagMu.Unlock()
		tagN++
		return "t" + strconv.Itoa(tagN)
	}
	for w := 0; w < workers; w++ {
		wg.Add(1)
		go func(w int) {
			defer wg.Done()
			r := fw.NewRng(seed*1000003 + uint64(w))
			for round := 0; round < rounds; round++ {
				if !srv.Alive() {
					return
				}
				// phones: mostly one per worker; sometimes a neighbour's (duplicate key)
				pw := w
				if r.Chance(10) {
					pw = (w + 1) % workers
				}
				phone := []byte{0x03, 0x88, 0x00, 0x00, byte(pw / 100), byte(pw%100/10<<4 | pw%10)}
				key := strings.TrimLeft(fmt.Sprintf("%x", phone), "0")
				cl, err := sock.Dial(srv.Addr())
				if err != nil {
					continue
				}
				serial := uint16(r.Intn(60000))
				send := func(id uint16, body []byte) {
					serial++
					_ = cl.Send(frames.Build(frames.H{ID: id, Phone: phone, Serial: serial}, body))
				}
				send(0x0002, nil)
				steps := 2 + r.Intn(6)
				for s := 0; s < steps; s++ {
					switch r.Intn(11) {
					case 10: // a caller re-sends its ActiveMessage object right after the first call was answered: the second call
						// is being written while the timer goroutine of the first is still asleep, and is pending when that timer fires
						_ = srv.Command(fmt.Sprintf("sendtwice %s %s %d - %d", nextTag(), key, 0x8104, 150))
						answered := 0
						for dl := time.Now().Add(120 * time.Millisecond); answered < 1 && time.Now().Before(dl); {
							for _, f := range cl.ReadFrames(0, 5*time.Millisecond) {
								m := jt808.NewJTMessage()
								if m.Decode(f) == nil && m.Header.ID == 0x8104 {
									ps := m.Header.SerialNumber
									send(0x0001, []byte{byte(ps >> 8), byte(ps), 0x81, 0x04, 0})
									answered++
								}
							}
						}
						time.Sleep(220 * time.Millisecond)
					case 0, 1: // burst of ordinary messages
						for k := 0; k < 1+r.Intn(5); k++ {
							switch r.Intn(4) {
							case 0:
								send(0x0002, nil)
							case 1:
								send(0x0200, r.Bytes(28))
							case 2: // authentication: the reply is computed by parsing the body into the handler object
								send(0x0102, []byte(key))
							default: // multimedia upload in one piece: the reply echoes the multimedia id parsed from the body
								send(0x0801, append([]byte{0, 0, byte(w), byte(round)}, make([]byte, 32)...))
							}
						}
					case 2: // a sub-packaged transfer, possibly incomplete
						n := 2 + r.Intn(3)
						miss := -1
						if r.Chance(40) {
							miss = 1 + r.Intn(n-1)
						}
						for k := 1; k <= n; k++ {
							if k-1 == miss {
								continue
							}
							serial++
							_ = cl.Send(frames.Build(frames.H{ID: 0x0801, Phone: phone, Serial: serial, Frag: true, Sum: uint16(n), No: uint16(k)}, r.Bytes(40)))
						}
					case 9: // several complete sub-packaged uploads back to back: while the writer still answers one reassembled
						// message (its reply is computed from the body), the reader is already assembling the next
						for u := 0; u < 3+r.Intn(4); u++ {
							n := 2 + r.Intn(3)
							var all []byte
							for k := 1; k <= n; k++ {
								serial++
								body := r.Bytes(20 + r.Intn(30))
								if k == 1 {
									body = append([]byte{0, 0, byte(w), byte(u)}, make([]byte, 32+r.Intn(8))...)
								}
								all = append(all, frames.Build(frames.H{ID: 0x0801, Phone: phone, Serial: serial, Frag: true, Sum: uint16(n), No: uint16(k)}, body)...)
							}
							_ = cl.Send(all)
						}
					case 3, 4: // platform commands, short or long time-out, from a caller goroutine
						for k := 0; k < 1+r.Intn(3); k++ {
							to := []int{30, 80, 400, 3000}[r.Intn(4)]
							if r.Chance(25) { // a caller that re-sends its ActiveMessage object as soon as the first call returned
								_ = srv.Command(fmt.Sprintf("sendtwice %s %s %d - %d", nextTag(), key, 0x8104, []int{400, 3000}[r.Intn(2)]))
								continue
							}
							_ = srv.Command(fmt.Sprintf("send %s %s %d - %d", nextTag(), key, 0x8104, to))
						}
					case 5: // answer whatever command frames have arrived
						for _, f := range cl.ReadFrames(0, time.Duration(1+r.Intn(4))*time.Millisecond) {
							m := jt808.NewJTMessage()
							if m.Decode(f) == nil && m.Header.ID == 0x8104 {
								ps := m.Header.SerialNumber
								send(0x0001, []byte{byte(ps >> 8), byte(ps), 0x81, 0x04, 0})
							}
						}
					case 6: // a response nobody waits for
						send(0x0001, []byte{0xab, 0xcd, 0x81, 0x04, 0})
					case 7:
						time.Sleep(time.Duration(r.Intn(3000)) * time.Microsecond)
					default:
						cl.ReadFrames(0, time.Millisecond)
					}
				}
				switch r.Intn(5) {
				case 0:
					cl.Reset()
				case 1: // parse error while replies may still be in flight
					_ = cl.Send([]byte{0x7e, 0x00, 0x01, 0x02, 0x7e})
					cl.ReadFrames(0, 2*time.Millisecond)
					cl.Close()
				case 2:
					time.Sleep(time.Duration(r.Intn(50)) * time.Millisecond)
					cl.Close()
				default:
					cl.Close()
				}
			}
		}(w)
	}
	wg.Wait()
	time.Sleep(450 * time.Millisecond) // short time-outs fire, leave events drain
	alive := srv.Alive()
	srv.Stop()
	if !alive {
		_, code, tail := srv.ExitInfo()
		if !strings.Contains(tail, "DATA RACE") {
			return "died", &fw.OracleFailure{Sig: "race-server/died", Msg: fmt.Sprintf("server exited with code %d: %s", code, lastLines(tail, 8))}
		}
	}
	logs, _ := filepath.Glob(filepath.Join(dir, "race.*"))
	total := 0
	sigs := map[string]string{}
	for _, l := range logs {
		b, _ := os.ReadFile(l)
		for _, rep := range strings.Split(string(b), "==================") {
			if !strings.Contains(rep, "WARNING: DATA RACE") {
				continue
			}
			total++
			s := raceSignature(rep)
			if _, ok := sigs[s]; !ok {
				sigs[s] = rep
			}
		}
	}
	if total == 0 {
		return "races=0", nil
	}
	var names []string
	for s := range sigs {
		names = append(names, s)
	}
	sort.Strings(names)
	first := names[0]
	return fmt.Sprintf("races=%d %s", total, strings.ReplaceAll(first, " ", "")),
		&fw.OracleFailure{Sig: "race/" + first, Msg: fmt.Sprintf("%d race report(s), %d distinct; first: %s", total, len(names), strings.ReplaceAll(trunc(strings.TrimSpace(sigs[first]), 1800), "\n", " | "))}
}

func genC18(r *fw.Rng, tier string, emit func(fw.Case)) {
	workers, rounds, reps := 12, 12, 1
	if tier == "thorough" {
		workers, rounds, reps = 16, 60, 4
	}
	for i := 0; i < reps; i++ {
		for _, v := range []string{"default", "slow", "parseall"} {
			emit(fw.Case{Op: "race", Args: []string{v, strconv.Itoa(workers), strconv.Itoa(rounds), strconv.Itoa(r.Intn(1000000))}})
		}
	}
}

var c18Last struct {
	key string
	orc *fw.OracleFailure
}

var C18 = &fw.Prop{ID: "C18", Gen: genC18,
	Exec: func(c fw.Case) string {
		res, o := execRace(c)
		c18Last.key, c18Last.orc = strings.Join(c.Args, " "), o
		return res
	},
	Oracle: func(c fw.Case) *fw.OracleFailure {
		if c18Last.key != strings.Join(c.Args, " ") {
			_, o := execRace(c)
			return o
		}
		return c18Last.orc
	},
	Class: func(c fw.Case, res string) string { return "race:" + c.Args[0] }}
