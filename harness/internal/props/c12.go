package props

import (
	"fmt"
	"os"
	"sort"
	"strconv"
	"strings"
	"sync"
	"time"

	"verif/harness/internal/frames"
	"verif/harness/internal/fw"
	"verif/harness/internal/sock"
)

// ---- server subprocess shared by the socket-level checks (C10-C13) --------------------------------

var (
	sysMu  sync.Mutex
	sysSrv *sock.Server
	sysArg string
)

func sysdBin() string {
	if b := os.Getenv("VERIF_SYSD"); b != "" {
		return b
	}
	return "/verif/.build/sysd"
}

// sysServer returns a live jt808 server subprocess started with the given extra args (restarted when it
// has died or when the args differ).
func sysServer(args ...string) (*sock.Server, error) {
	sysMu.Lock()
	defer sysMu.Unlock()
	key := strings.Join(args, " ")
	if sysSrv != nil && sysSrv.Alive() && sysArg == key {
		return sysSrv, nil
	}
	if sysSrv != nil {
		sysSrv.Stop()
	}
	s, err := sock.StartServer(sysdBin(), append([]string{"-mode", "jt808"}, args...)...)
	if err != nil {
		return nil, err
	}
	sysSrv, sysArg = s, key
	return s, nil
}

func sysStopAll() {
	sysMu.Lock()
	defer sysMu.Unlock()
	if sysSrv != nil {
		sysSrv.Stop()
		sysSrv = nil
	}
}

// ---- scripted command scenarios ---------------------------------------------------------------------
//
// script tokens (comma separated), executed one after the other, each awaited:
//   J          a terminal connects and sends a heartbeat (joins under its phone number)
//   C<tag>S|L  a caller invokes SendActiveMessage (0x8103) with a Short (150 ms) or Long (8 s) timeout
//   R<tag>     the terminal answers command <tag> with a 0x0001 response echoing its platform serial
//   W          the terminal sends a 0x0001 response echoing a serial nobody waits for
//   H          the terminal sends a heartbeat and must get its general response
//   C<tag>Z    the same with time-out 0, which the library documents as "use the default of 3 s"
//   T          nothing happens for 450 ms (short timeouts fire)
//   U          nothing happens for 3.3 s (the default time-out fires as well)
//   X          the terminal closes the connection
// result: "<tag>=resp|timeout|fail|noexist|pending ..." in tag order, then "hb=<answered>/<sent>".

var actPhoneCounter int
var actPhoneMu sync.Mutex

func actNextPhone() []byte {
	actPhoneMu.Lock()
	defer actPhoneMu.Unlock()
	actPhoneCounter++
	n := actPhoneCounter
	return []byte{0x01, 0x39, byte(n/1000000%10<<4 | n/100000%10), byte(n/10000%10<<4 | n/1000%10), byte(n/100%10<<4 | n/10%10), byte(n%10<<4 | 1)}
}

type actCall struct {
	tag      string
	short    bool
	deflt    bool // requested with time-out 0: the library's default of 3 s applies
	serial   int  // platform serial the terminal saw for it (-1 unknown)
	result   string
	elapsed  int
	started  time.Time
	returned bool
	pauses   int  // T pauses spent while the call was outstanding and the terminal connected
	answered bool // the terminal sent a response echoing this command's serial while the call was waiting (long time-out)
}

func runActScript(script string, srvArgs ...string) (string, *fw.OracleFailure) {
	srv, err := sysServer(srvArgs...)
	if err != nil {
		return "server-start-failed", &fw.OracleFailure{Sig: "server/start", Msg: err.Error()}
	}
	phone := actNextPhone()
	key := phoneStr(phone)
	var cl *sock.Client
	defer func() {
		if cl != nil {
			cl.Close()
		}
	}()
	calls := map[string]*actCall{}
	var order []string
	var lateOrc *fw.OracleFailure
	hbSent, hbAnswered := 0, 0
	bursts, burstWant, burstGot := 0, 0, 0
	termSerial := uint16(100)
	mark := srv.Len()
	fail := func(sig, msg string) (string, *fw.OracleFailure) {
		return "scenario-failed:" + sig, &fw.OracleFailure{Sig: sig, Msg: msg}
	}
	avQuery := map[string]bool{}
	checkStray := false
	var strayOrc *fw.OracleFailure
	dedicated := map[string]bool{}
	nDedicated := 0
	collect := func(wait time.Duration) {
		deadline := time.Now().Add(wait)
		for {
			pendingN := 0
			for _, e := range srv.Snapshot()[mark:] {
				if sock.Str(e, "event") == "active-result" {
					if c := calls[sock.Str(e, "tag")]; c != nil && !c.returned {
						c.returned = true
						c.elapsed = sock.Int(e, "elapsed_ms")
						errS := sock.Str(e, "err")
						switch {
						case sock.Bool(e, "isNotExist"): // the exported sentinel, as a caller tests it (errors.Is)
							c.result = "noexist"
						case sock.Bool(e, "isOvertime"):
							c.result = "timeout"
						case errS != "":
							c.result = "fail"
						default:
							c.result = fmt.Sprintf("resp/%d", sock.Int(e, "respSerial"))
							if id := sock.Int(e, "respID"); id == 0x1003 {
								c.result = fmt.Sprintf("resp/%d", sock.Int(e, "platformSeq"))
							}
							if id := sock.Int(e, "respID"); id == 0x0001 || id == 0x0104 {
								// the response body echoes the platform serial of the command it answers
								b := fw.UnHex(orDash(sock.Str(e, "respBody")))
								if len(b) >= 2 {
									c.result = fmt.Sprintf("resp/%d", int(b[0])<<8|int(b[1]))
								}
							}
						}
					}
				}
			}
			for _, c := range calls {
				if !c.returned {
					pendingN++
				}
			}
			if pendingN == 0 || time.Now().After(deadline) {
				return
			}
			time.Sleep(5 * time.Millisecond)
		}
	}
	for _, tok := range strings.Split(script, ",") {
		if !srv.Alive() {
			_, code, tail := srv.ExitInfo()
			return fail("server/died", fmt.Sprintf("server process exited with code %d during the scenario: %s", code, lastLines(tail, 6)))
		}
		switch {
		case tok == "J0": // join with a message that gets no reply (a terminal general response): the first command then carries platform serial 0
			c, err := sock.Dial(srv.Addr())
			if err != nil {
				return fail("server/refuses-connection", err.Error())
			}
			cl = c
			jm := srv.Len()
			_ = cl.Send(frames.Build(frames.H{ID: 0x0001, Phone: phone, Serial: termSerial}, []byte{0, 0, 0x80, 0x01, 0}))
			termSerial++
			if _, _, ok := srv.WaitForFrom(jm, func(e sock.Event) bool { return sock.Str(e, "event") == "join" && sock.Str(e, "key") == key }, 3*time.Second); !ok {
				return fail("join/no-join", "a connection whose first message is a terminal general response did not join")
			}
		case strings.HasPrefix(tok, "B") || strings.HasPrefix(tok, "b") || strings.HasPrefix(tok, "s"): // burst of n commands issued back to back
			n, _ := strconv.Atoi(tok[1:])
			bursts++
			for i := 1; i <= n; i++ {
				tag := fmt.Sprintf("y%d%d", bursts, i)
				c := &actCall{tag: tag, serial: -1, started: time.Now(), short: tok[0] == 's'}
				calls[tag] = c
				order = append(order, tag)
				to := 8000
				if tok[0] == 's' { // n commands with the 150 ms time-out to a terminal that stays silent: n time-outs fall due together
					to = 150
				}
				_ = srv.Command(fmt.Sprintf("send %s %s %d 00 %d", tag, key, 0x8103, to))
			}
			if tok[0] == 'B' || tok[0] == 's' { // wait until every command frame has reached the terminal
				if tok[0] == 'B' {
					burstWant += n
				}
				if cl != nil {
					deadline := time.Now().Add(4 * time.Second)
					got := 0
					for got < n && time.Now().Before(deadline) {
						for _, f := range cl.ReadFrames(1, 300*time.Millisecond) {
							if h, _, ok := frames.Parse(f); ok && h.ID == 0x8103 {
								got++
							}
						}
					}
					if tok[0] == 'B' {
						burstGot += got
					}
				}
			} else {
				time.Sleep(30 * time.Millisecond)
			}
		case tok == "J":
			c, err := sock.Dial(srv.Addr())
			if err != nil {
				return fail("server/refuses-connection", err.Error())
			}
			cl = c
			hb := frames.Build(frames.H{ID: 0x0002, Phone: phone, Serial: termSerial}, nil)
			termSerial++
			_ = cl.Send(hb)
			if fs := cl.ReadFrames(1, 3*time.Second); len(fs) < 1 {
				return fail("join/no-reply", "the first heartbeat of a new connection was not answered")
			}
		case strings.HasPrefix(tok, "C"):
			tag := tok[1 : len(tok)-1]
			short := strings.HasSuffix(tok, "S")
			to := 8000
			if short {
				to = 150
			}
			if strings.HasSuffix(tok, "Z") {
				to = 0
			}
			c := &actCall{tag: tag, short: short, deflt: to == 0, serial: -1, started: time.Now()}
			calls[tag] = c
			order = append(order, tag)
			cmdID, cmdBody := 0x8103, "00"
			if strings.HasSuffix(tok, "D") { // a parameter query: answered by the dedicated response 0x0104
				cmdID, cmdBody = 0x8104, "-"
				dedicated[tag] = true
			}
			if strings.HasSuffix(tok, "P") { // audio/video attribute query 0x9003: answered by 0x1003 (no echoed serial)
				cmdID, cmdBody = 0x9003, "-"
				avQuery[tag] = true
			}
			_ = srv.Command(fmt.Sprintf("send %s %s %d %s %d", tag, key, cmdID, cmdBody, to))
			// wait until the command reached the terminal (or the call returned already: offline key)
			if cl != nil {
				if fs := cl.ReadFrames(1, 400*time.Millisecond); len(fs) >= 1 {
					if h, _, ok := frames.Parse(fs[0]); ok && int(h.ID) == cmdID {
						c.serial = int(h.Serial)
					}
				}
			} else {
				collect(300 * time.Millisecond)
			}
		case strings.HasPrefix(tok, "R"):
			c := calls[tok[1:]]
			if c == nil || c.serial < 0 || cl == nil {
				continue
			}
			body := []byte{byte(c.serial >> 8), byte(c.serial), 0x81, 0x03, 0}
			respID := uint16(0x0001)
			if dedicated[tok[1:]] {
				// 0x0104: echoed serial, count, parameter items — string parameters of length 0 (an APN that is not set) in the
				// middle and in last position, DWORD / WORD / BYTE parameters, the k-th answer picks the k-th shape
				shapes := [][]byte{
					{1, 0, 0, 0, 0x10, 0},
					{2, 0, 0, 0, 0x01, 4, 0, 0, 0, 60, 0, 0, 0, 0x10, 0},
					{3, 0, 0, 0, 0x10, 0, 0, 0, 0, 0x13, 9, '1', '2', '7', '.', '0', '.', '0', '.', '1', 0, 0, 0, 0x11, 0},
					{2, 0, 0, 0, 0x81, 2, 0, 11, 0, 0, 0, 0x84, 1, 2},
					{0},
					{1, 0, 0, 0, 0x83, 0},
				}
				body = append([]byte{byte(c.serial >> 8), byte(c.serial)}, shapes[nDedicated%len(shapes)]...)
				nDedicated++
				respID = 0x0104
			}
			collect(0)
			if !c.returned && !c.short && !c.deflt {
				c.answered = true
			}
			if avQuery[tok[1:]] {
				body, respID = []byte{8, 1, 0, 1, 0x01, 0x40, 1, 98, 4, 4}, 0x1003
			}
			_ = cl.Send(frames.Build(frames.H{ID: respID, Phone: phone, Serial: termSerial}, body))
			termSerial++
			if respID != 0x0001 {
				checkStray = true
			}
			// every action is awaited: the call this response belongs to returns (a fixed pause let a disconnect that
			// follows overtake the writer on a loaded machine, and then the caller rightly sees "closed")
			for dl := time.Now().Add(1500 * time.Millisecond); !c.returned && time.Now().Before(dl); {
				collect(0)
				if !c.returned {
					time.Sleep(5 * time.Millisecond)
				}
			}
			time.Sleep(10 * time.Millisecond)
			if checkStray {
				// a response is the end of an exchange: the platform sends nothing back to the terminal for it
				checkStray = false
				if fs := cl.ReadFrames(1, 60*time.Millisecond); len(fs) > 0 {
					if h, _, ok := frames.Parse(fs[0]); ok && strayOrc == nil {
						strayOrc = &fw.OracleFailure{Sig: "active/reply-to-a-response", Msg: fmt.Sprintf("after its response to command %s the terminal received a frame 0x%04x from the platform", tok[1:], h.ID)}
					}
				}
			}
		case strings.HasPrefix(tok, "Q:"):
			// the terminal answers several commands back to back: one write per response, a few milliseconds apart, none
			// awaited before the next is sent (while the writer is busy, the reader takes the next response off the socket
			// into the same read buffer before the previous one has been handled)
			var cs []*actCall
			for _, tg := range strings.Split(tok[2:], ":") {
				c := calls[tg]
				if c == nil || c.serial < 0 || cl == nil {
					continue
				}
				collect(0)
				if !c.returned && !c.short && !c.deflt {
					c.answered = true
				}
				_ = cl.Send(frames.Build(frames.H{ID: 0x0001, Phone: phone, Serial: termSerial}, []byte{byte(c.serial >> 8), byte(c.serial), 0x81, 0x03, 0}))
				termSerial++
				cs = append(cs, c)
				time.Sleep(4 * time.Millisecond)
			}
			for _, c := range cs {
				for dl := time.Now().Add(2500 * time.Millisecond); !c.returned && time.Now().Before(dl); {
					collect(0)
					if !c.returned {
						time.Sleep(5 * time.Millisecond)
					}
				}
			}
			time.Sleep(10 * time.Millisecond)
		case tok == "W":
			if cl != nil {
				_ = cl.Send(frames.Build(frames.H{ID: 0x0001, Phone: phone, Serial: termSerial}, []byte{0xee, 0xee, 0x81, 0x03, 0}))
				termSerial++
				time.Sleep(30 * time.Millisecond)
			}
		case tok == "V": // a dedicated response (0x0104, answer to a parameter query) echoing a serial nobody waits for
			if cl != nil {
				_ = cl.Send(frames.Build(frames.H{ID: 0x0104, Phone: phone, Serial: termSerial}, []byte{0x77, 0x77, 0}))
				termSerial++
				time.Sleep(30 * time.Millisecond)
			}
		case tok == "H":
			if cl != nil {
				hbSent++
				_ = cl.Send(frames.Build(frames.H{ID: 0x0002, Phone: phone, Serial: termSerial}, nil))
				termSerial++
				for _, f := range cl.ReadFrames(1, 2*time.Second) {
					if h, _, ok := frames.Parse(f); ok && h.ID == 0x8001 {
						hbAnswered++
					}
				}
			}
		case tok == "T":
			time.Sleep(450 * time.Millisecond)
			// a 150 ms command issued to a connected terminal that has stayed silent for two such pauses must have come back
			collect(0)
			for _, tag := range order {
				if c := calls[tag]; c.short && c.serial != -2 && cl != nil {
					c.pauses++
					if c.pauses >= 2 && !c.returned && lateOrc == nil && time.Since(c.started) > 900*time.Millisecond {
						lateOrc = &fw.OracleFailure{Sig: "active/timeout-not-delivered", Msg: fmt.Sprintf("call %s with a 150 ms time-out has not returned %d ms after it was made, the terminal being connected and silent", tag, time.Since(c.started).Milliseconds())}
					}
				}
			}
		case tok == "U":
			time.Sleep(3300 * time.Millisecond)
			collect(0)
			for _, tag := range order {
				if c := calls[tag]; c.deflt && !c.returned && cl != nil && lateOrc == nil {
					lateOrc = &fw.OracleFailure{Sig: "active/default-timeout", Msg: fmt.Sprintf("call %s with time-out 0 (the library default of 3 s applies) has not returned %d ms after it was made, the terminal being connected and silent", tag, time.Since(c.started).Milliseconds())}
				}
			}
		case tok == "X":
			if cl != nil {
				cl.Close()
				cl = nil
				srv.WaitForFrom(mark, func(e sock.Event) bool { return sock.Str(e, "event") == "leave" && sock.Str(e, "key") == key }, 3*time.Second)
			}
		}
	}
	// implicit end of every scenario: the terminal goes away, so every call still outstanding must come back
	if cl != nil {
		cl.Close()
		cl = nil
		srv.WaitForFrom(mark, func(e sock.Event) bool { return sock.Str(e, "event") == "leave" && sock.Str(e, "key") == key }, 3*time.Second)
	}
	if strings.HasPrefix(script, "w") { // the writer may still be inside a slow write callback when the terminal goes away
		if ms, err := strconv.Atoi(strings.SplitN(script[1:], ",", 2)[0]); err == nil {
			collect(time.Duration(2*ms) * time.Millisecond)
		}
	}
	collect(1500 * time.Millisecond)
	if os.Getenv("VERIF_DEBUG_EVENTS") != "" {
		for _, e := range srv.Snapshot()[mark:] {
			fmt.Fprintf(os.Stderr, "event %v\n", e)
		}
	}
	sort.Strings(order)
	var parts []string
	orc := lateOrc
	if orc == nil {
		orc = strayOrc
	}
	for _, tag := range order {
		c := calls[tag]
		res := c.result
		if !c.returned {
			res = "pending"
			if orc == nil {
				orc = &fw.OracleFailure{Sig: "active/stranded", Msg: fmt.Sprintf("call %s did not return within the scenario (short=%v): SendActiveMessage is still blocked", tag, c.short)}
			}
		}
		if strings.HasPrefix(res, "resp/") {
			got := strings.TrimPrefix(res, "resp/")
			if got != fmt.Sprint(c.serial) && orc == nil {
				orc = &fw.OracleFailure{Sig: "active/foreign-response", Msg: fmt.Sprintf("call %s (platform serial %d) returned the response echoing serial %s", tag, c.serial, got)}
			}
			res = "resp"
		}
		if c.answered && c.returned && res != "resp" && orc == nil {
			orc = &fw.OracleFailure{Sig: "active/response-lost", Msg: fmt.Sprintf("the terminal answered command %s (platform serial %d, a well-formed response echoing that serial) while the call was waiting with an 8 s time-out, yet the caller got %q", tag, c.serial, res)}
		}
		if c.returned && c.short && c.result == "timeout" && c.elapsed > 150+1500 && orc == nil && !strings.HasPrefix(script, "w") {
			orc = &fw.OracleFailure{Sig: "active/late-timeout", Msg: fmt.Sprintf("call %s with a 150 ms timeout returned after %d ms", tag, c.elapsed)}
		}
		if c.returned && c.deflt && c.result == "timeout" && (c.elapsed > 3000+1500 || c.elapsed < 2500) && orc == nil {
			orc = &fw.OracleFailure{Sig: "active/default-timeout", Msg: fmt.Sprintf("call %s with time-out 0 (library default 3 s) returned after %d ms", tag, c.elapsed)}
		}
		parts = append(parts, tag+"="+res)
	}
	if hbAnswered != hbSent && orc == nil {
		orc = &fw.OracleFailure{Sig: "active/traffic-unanswered", Msg: fmt.Sprintf("%d of %d heartbeats sent between commands were answered", hbAnswered, hbSent)}
	}
	if !srv.Alive() {
		_, code, tail := srv.ExitInfo()
		return fail("server/died", fmt.Sprintf("server process exited with code %d: %s", code, lastLines(tail, 6)))
	}
	out := fmt.Sprintf("%s hb=%d/%d", strings.Join(parts, " "), hbAnswered, hbSent)
	if burstWant > 0 {
		out += fmt.Sprintf(" burst=%d/%d", burstGot, burstWant)
		if burstGot != burstWant && orc == nil {
			orc = &fw.OracleFailure{Sig: "active/command-not-delivered", Msg: fmt.Sprintf("%d of %d commands issued back to back for an online terminal reached it", burstGot, burstWant)}
		}
	}
	return out, orc
}

func orDash(s string) string {
	if s == "" {
		return "-"
	}
	return s
}

func lastLines(s string, n int) string {
	ls := strings.Split(strings.TrimSpace(s), "\n")
	if len(ls) > n {
		ls = ls[len(ls)-n:]
	}
	return strings.Join(ls, " | ")
}

// scenario generator: well-formed scripts (every R refers to an earlier C on a live connection, at most 3 commands
// outstanding at a time so that the manager never waits for room, which would make awaiting impossible)
// settleShorts inserts a "T" (wait until short time-outs have fired) before every disconnect and at the end of a
// script while a short-time-out command is outstanding: otherwise the 150 ms timer races the disconnect, and which
// of the two the caller sees depends on the machine's load (a false alarm seen once in a run under load).
func settleShorts(script string) string {
	var out []string
	shorts := 0
	for _, t := range strings.Split(script, ",") {
		switch {
		case strings.HasPrefix(t, "C") && strings.HasSuffix(t, "S"):
			shorts++
		case t == "T":
			shorts = 0
		case t == "X":
			if shorts > 0 {
				out = append(out, "T")
				shorts = 0
			}
		}
		out = append(out, t)
	}
	if shorts > 0 {
		out = append(out, "T")
	}
	return strings.Join(out, ",")
}

func genActScripts(r *fw.Rng, n int, withClose bool) []string {
	out := genActScriptsRaw(r, n, withClose)
	for i := range out {
		out[i] = settleShorts(out[i])
	}
	return out
}

func genActScriptsRaw(r *fw.Rng, n int, withClose bool) []string {
	var out []string
	fixed := []string{
		"J,CaL,Ra", "J,CaS,T", "J,CaS,W,T", "J,CaL,CbL,Rb,Ra", "J,CaL,Ra,Ra,H", "CaL", "J,X,CaL", "J,CaL,H,Ra,H",
		"J,CaS,CbL,T,Rb", "J,CaL,CbL,CcL,Rc,Ra,Rb", "J,CaS,CbS,CcS,T,H",
	}
	if withClose {
		fixed = append(fixed, "J,CaL,X", "J,CaL,CbL,X", "J,CaL,CbS,CcL,X", "J,CaS,T,X,CbL", "J,CaL,X,J,CbL,Rb", "J,CaL,Ra,X,CbL", "J,CaL,CbL,Ra,X")
	}
	out = append(out, fixed...)
	// the first command of a connection carries platform serial 0 when the join message got no reply: a response that
	// echoes a serial nobody waits for must not be taken for it
	out = append(out, "J0,CaL,W,Ra", "J0,CaS,W,T", "J0,CaL,CbL,W,Rb,Ra")
	// a stray DEDICATED response (0x0104 with a serial nobody waits for) while exactly one / two commands are outstanding
	out = append(out, "J,CaL,V,Ra", "J,CaS,V,T", "J,CaL,CbL,V,Ra,Rb", "J,CaL,Ra,V,CbL,V,Rb")
	// time-out 0 means "the default of 3 s", not "no time-out": a terminal that stays connected and silent
	out = append(out, "J,CaZ,CbL,U,H,Rb")
	if withClose {
		out = append(out, "J,CaZ,CbS,T,X")
	}
	for len(out) < n {
		toks := []string{"J"}
		live := true
		var open []string // tags outstanding on the live connection
		tags := "abcdefgh"
		nt := 0
		for k := 0; k < 3+r.Intn(6); k++ {
			switch r.Intn(7) {
			case 0, 1:
				if nt < len(tags) && len(open) < 3 {
					tag := string(tags[nt])
					nt++
					kind := "L"
					if r.Chance(35) {
						kind = "S"
					}
					toks = append(toks, "C"+tag+kind)
					if live {
						open = append(open, tag+kind)
					}
				}
			case 2, 3:
				// answers go to commands with the long time-out only: answering a 150 ms command races its timer,
				// and which of the two wins depends on the machine's load (a false alarm seen in a seed sweep)
				var longs []int
				for i, o := range open {
					if strings.HasSuffix(o, "L") {
						longs = append(longs, i)
					}
				}
				if len(longs) > 0 && live {
					i := longs[r.Intn(len(longs))]
					toks = append(toks, "R"+open[i][:1])
					open = append(open[:i], open[i+1:]...)
				}
			case 4:
				if live {
					toks = append(toks, r.Pick2("H", "W"))
				}
			case 5:
				toks = append(toks, "T")
				var keep []string
				for _, o := range open {
					if strings.HasSuffix(o, "L") {
						keep = append(keep, o)
					}
				}
				open = keep
			case 6:
				if withClose && live && r.Chance(50) {
					toks = append(toks, "X")
					live = false
					open = nil
				}
			}
		}
		out = append(out, strings.Join(toks, ","))
	}
	return out
}

func genC12(r *fw.Rng, tier string, emit func(fw.Case)) {
	n := 45
	if tier == "thorough" {
		n = 500
	}
	for _, s := range genActScripts(r, n, false) {
		emit(fw.Case{Op: "act", Args: []string{s}})
	}
	// parameter queries (0x8104) answered by the dedicated response 0x0104 with parameter lists of several shapes
	// (zero-length strings in the middle / in last position, no parameter at all), alone, mixed with general responses,
	// answered in the other order, and after a stray dedicated response
	for _, s := range []string{"J,CaD,Ra", "J,CaD,CbD,Ra,Rb", "J,CaD,CbL,Rb,Ra", "J,CaD,V,Ra,H", "J,CaD,Ra,CbD,Rb,CcD,Rc,CdD,Rd,CeD,Re,CfD,Rf",
		"J,CaL,CbD,CcD,Rc,Ra,Rb", "J,CaP,Ra,H", "J,CaP,Ra,CbP,Rb,CcL,Rc", "J,CaD,Ra,CbP,Rb,H"} {
		emit(fw.Case{Op: "act", Args: []string{s}})
	}
	// responses arriving back to back while the writer is slow (own server instance with a slow write callback)
	for _, s := range []string{"J,CaL,CbL,Q:a:b", "J,CaL,CbL,CcL,Q:c:a:b,H", "J,CaL,CbL,Q:b:a,CcL,CdL,Q:c:d"} {
		emit(fw.Case{Op: "act", Args: []string{s}})
	}
	// bursts of more commands than the connection's queue holds (own server instance with a slow write callback)
	for _, s := range []string{"J,B4", "J,B6,H", "J,B8", "J,CaL,B5,Ra"} {
		emit(fw.Case{Op: "act", Args: []string{s}})
	}
	if tier == "thorough" {
		for i := 0; i < 12; i++ {
			emit(fw.Case{Op: "act", Args: []string{fmt.Sprintf("J,B%d,H,B%d", 4+r.Intn(5), 4+r.Intn(5))}})
		}
	}
}

func genC13(r *fw.Rng, tier string, emit func(fw.Case)) {
	n := 40
	if tier == "thorough" {
		n = 400
	}
	for _, s := range genActScripts(r, n, true) {
		emit(fw.Case{Op: "act", Args: []string{s}})
	}
	// commands queued but not yet written when the terminal goes away: every one of them must come back
	// more short-time-out commands than the completion queue holds (3) expire together while the writer is busy: every
	// caller gets its time-out when it is due, not when the terminal happens to disconnect
	// a writer stalled for seconds (slow write callback): the time-out answer of the last command is produced long after
	// the command was issued; the caller must still get it, and the server must survive producing it
	emit(fw.Case{Op: "act", Args: []string{"w2000,J,s3,U,U"}})
	for _, s := range []string{"J,s6,T,T,H", "J,s9,T,T,H,CaL,Ra", "J,s5,T,s5,T,T,H"} {
		emit(fw.Case{Op: "act", Args: []string{s}})
	}
	for _, s := range []string{"J,b4,X", "J,b6,X", "J,b8,X", "J,b5,X,J,CaL,Ra", "J,B5,X"} {
		emit(fw.Case{Op: "act", Args: []string{s}})
	}
	if tier == "thorough" {
		for i := 0; i < 12; i++ {
			emit(fw.Case{Op: "act", Args: []string{fmt.Sprintf("J,b%d,X,J,b%d,X", 3+r.Intn(6), 3+r.Intn(6))}})
		}
	}
	m := 6
	if tier == "thorough" {
		m = 60
	}
	for i := 0; i < m; i++ {
		emit(fw.Case{Op: "actstress", Args: []string{fmt.Sprintf("%d:%d:%d", 2+r.Intn(5), 1+r.Intn(8), r.Intn(1000000))}})
	}
}

// the scenario is executed once per case: Exec runs it and keeps the oracle's verdict for the Oracle call that follows
var actLast struct {
	key string
	orc *fw.OracleFailure
}

func execAct(c fw.Case) string {
	var res string
	var o *fw.OracleFailure
	switch c.Op {
	case "act":
		if strings.HasPrefix(c.Args[0], "w") { // w<ms>,…: the write callback takes <ms> milliseconds (a stalled writer)
			ms := strings.SplitN(c.Args[0][1:], ",", 2)[0]
			res, o = runActScript(c.Args[0], "-slow-write-ms", ms)
		} else if strings.Contains(c.Args[0], "B") || strings.Contains(c.Args[0], "b") || strings.Contains(c.Args[0], "Q:") || strings.Contains(c.Args[0], ",s") {
			// bursts: a slow write callback lets the connection's queue (capacity 3) fill up
			res, o = runActScript(c.Args[0], "-slow-write-ms", "40")
		} else {
			res, o = runActScript(c.Args[0])
		}
	case "actstress":
		res, o = runActStress(c.Args[0])
	default:
		return "bad-op"
	}
	actLast.key, actLast.orc = c.Op+" "+c.Args[0], o
	return res
}

func oracleAct(c fw.Case) *fw.OracleFailure {
	if actLast.key == c.Op+" "+c.Args[0] {
		return actLast.orc
	}
	switch c.Op {
	case "act":
		_, o := runActScript(c.Args[0])
		return o
	case "actstress":
		_, o := runActStress(c.Args[0])
		return o
	}
	return nil
}

func classAct(c fw.Case, res string) string {
	cl := c.Op
	for _, k := range []string{"resp", "timeout", "fail", "noexist", "pending"} {
		if strings.Contains(res, "="+k) {
			cl += ":" + k
		}
	}
	return cl
}

var C12 = &fw.Prop{ID: "C12", Gen: genC12, Exec: execAct, Oracle: oracleAct, Class: classAct}
var C13 = &fw.Prop{ID: "C13", Gen: genC13, Exec: execAct, Oracle: oracleAct, Class: classAct}

// runActStress: k terminals, each with c concurrent callers firing commands with short timeouts while the
// terminals answer some, ignore others and disconnect at random moments. Schedule-dependent, so there is no
// model result ("skip"): the property itself is evaluated — the server stays up and every call returns within
// its timeout plus slack.
func runActStress(spec string) (string, *fw.OracleFailure) {
	var k, c, seed int
	fmt.Sscanf(spec, "%d:%d:%d", &k, &c, &seed)
	srv, err := sysServer()
	if err != nil {
		return "server-start-failed", &fw.OracleFailure{Sig: "server/start", Msg: err.Error()}
	}
	r := fw.NewRng(uint64(seed))
	mark := srv.Len()
	type term struct {
		phone []byte
		key   string
		cl    *sock.Client
	}
	var terms []*term
	for i := 0; i < k; i++ {
		t := &term{phone: actNextPhone()}
		t.key = phoneStr(t.phone)
		cl, err := sock.Dial(srv.Addr())
		if err != nil {
			return "scenario-failed:server/refuses-connection", &fw.OracleFailure{Sig: "server/refuses-connection", Msg: err.Error()}
		}
		t.cl = cl
		_ = cl.Send(frames.Build(frames.H{ID: 0x0002, Phone: t.phone, Serial: 1}, nil))
		cl.ReadFrames(1, 2*time.Second)
		terms = append(terms, t)
	}
	total := 0
	var wg sync.WaitGroup
	for ti, t := range terms {
		closeAfter := time.Duration(r.Intn(250)) * time.Millisecond
		answer := r.Intn(3) // 0: never, 1: always, 2: sometimes
		for j := 0; j < c; j++ {
			tag := fmt.Sprintf("s%dx%dx%d", seed, ti, j)
			to := 100 + r.Intn(200)
			delay := time.Duration(r.Intn(200)) * time.Millisecond
			total++
			go func() {
				time.Sleep(delay)
				_ = srv.Command(fmt.Sprintf("send %s %s %d 00 %d", tag, t.key, 0x8103, to))
			}()
		}
		wg.Add(1)
		go func(t *term, seedT uint64) {
			defer wg.Done()
			rr := fw.NewRng(seedT)
			end := time.Now().Add(closeAfter)
			ser := uint16(10)
			for time.Now().Before(end) {
				for _, f := range t.cl.ReadFrames(1, 20*time.Millisecond) {
					h, _, ok := frames.Parse(f)
					if !ok || h.ID != 0x8103 {
						continue
					}
					if answer == 1 || (answer == 2 && rr.Bool()) {
						body := []byte{byte(h.Serial >> 8), byte(h.Serial), 0x81, 0x03, 0}
						_ = t.cl.Send(frames.Build(frames.H{ID: 0x0001, Phone: t.phone, Serial: ser}, body))
						ser++
					}
				}
			}
			if rr.Bool() {
				t.cl.Reset()
			} else {
				t.cl.Close()
			}
		}(t, r.U64())
	}
	wg.Wait()
	// every call must return: timeouts are <= 300 ms, starts are <= 200 ms after now-ish
	deadline := time.Now().Add(3 * time.Second)
	returned := 0
	for time.Now().Before(deadline) {
		returned = 0
		for _, e := range srv.Snapshot()[mark:] {
			if sock.Str(e, "event") == "active-result" && strings.HasPrefix(sock.Str(e, "tag"), fmt.Sprintf("s%dx", seed)) {
				returned++
			}
		}
		if returned >= total || !srv.Alive() {
			break
		}
		time.Sleep(10 * time.Millisecond)
	}
	if !srv.Alive() {
		_, code, tail := srv.ExitInfo()
		return "scenario-failed:server/died", &fw.OracleFailure{Sig: "server/died", Msg: fmt.Sprintf("server process exited with code %d under concurrent commands and disconnects: %s", code, lastLines(tail, 8))}
	}
	if returned < total {
		return fmt.Sprintf("returned=%d/%d", returned, total), &fw.OracleFailure{Sig: "active/stranded", Msg: fmt.Sprintf("%d of %d SendActiveMessage calls had not returned 3 s after their terminals were gone", total-returned, total)}
	}
	// a fresh connection must still be served (the session manager is not wedged)
	cl, err := sock.Dial(srv.Addr())
	if err != nil {
		return "scenario-failed:server/refuses-connection", &fw.OracleFailure{Sig: "server/refuses-connection", Msg: err.Error()}
	}
	defer cl.Close()
	ph := actNextPhone()
	_ = cl.Send(frames.Build(frames.H{ID: 0x0002, Phone: ph, Serial: 1}, nil))
	if len(cl.ReadFrames(1, 2*time.Second)) < 1 {
		return "scenario-failed:server/wedged", &fw.OracleFailure{Sig: "server/wedged", Msg: "after the stress a new terminal's heartbeat was not answered within 2 s"}
	}
	return "ok", nil
}
