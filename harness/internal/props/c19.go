package props

import (
	"encoding/hex"
	"fmt"
	"os"
	"path/filepath"
	"sort"
	"strconv"
	"strings"
	"time"

	"verif/harness/internal/frames"
	"verif/harness/internal/fw"
	"verif/harness/internal/sock"
)

// C19: names announced by the terminal vs the directory of its phone number.
// op "confine <astype> <phonebcdhex> <namehex:contenthex;...> <upload 0|1>"
// result "stored=[<path relative to the working directory, hex>,...]" (sorted; file.log excluded)
// The attachment server runs in <root>/w1/w2/w3/w4/cwd; the whole <root> tree is listed after the session, and the
// locations the raw names would resolve to (also above <root>, or absolute) are probed with Lstat.

const attCwdRel = "w1/w2/w3/w4/cwd"

func listTree(root string) []string {
	var out []string
	filepath.Walk(root, func(p string, info os.FileInfo, err error) error {
		if err == nil && p != root {
			rel, _ := filepath.Rel(root, p)
			if info.IsDir() {
				rel += "/"
			}
			out = append(out, rel)
		}
		return nil
	})
	sort.Strings(out)
	return out
}

func cleanTree(root string) {
	cwd := filepath.Join(root, attCwdRel)
	ents, _ := os.ReadDir(cwd)
	for _, e := range ents {
		if e.Name() != "file.log" {
			os.RemoveAll(filepath.Join(cwd, e.Name()))
		}
	}
	// anything else under root that is not on the path to cwd
	keep := map[string]bool{}
	p := root
	for _, c := range strings.Split(attCwdRel, "/") {
		p = filepath.Join(p, c)
		keep[p] = true
	}
	var walk func(d string)
	walk = func(d string) {
		ents, _ := os.ReadDir(d)
		for _, e := range ents {
			full := filepath.Join(d, e.Name())
			if keep[full] {
				if full != cwd {
					walk(full)
				}
				continue
			}
			os.RemoveAll(full)
		}
	}
	walk(root)
}

var confineLast struct {
	key string
	orc *fw.OracleFailure
}

func execConfine(c fw.Case) string {
	astype, _ := strconv.Atoi(c.Args[0])
	phone := fw.UnHex(c.Args[1])
	files := parseAttFiles(c.Args[2])
	upload := c.Args[3] == "1"
	key := strings.Join(c.Args, " ")
	confineLast.key, confineLast.orc = key, nil
	srv, root, err := attServer(astype)
	if err != nil {
		confineLast.orc = &fw.OracleFailure{Sig: "server/start", Msg: err.Error()}
		return "server-start-failed"
	}
	cleanTree(root)
	cwd := filepath.Join(root, attCwdRel)
	r := fw.NewRng(uint64(len(key)) * 7919)
	serial := uint16(1)
	frame := func(id uint16, body []byte) []byte {
		f := frames.Build(frames.H{ID: id, Phone: phone, Serial: serial}, body)
		serial++
		return f
	}
	var stream []byte
	n := 1
	stream = append(stream, frame(0x1210, att1210(astype, files, "AL", r))...)
	if upload {
		for _, f := range files {
			if len(f.name) == 0 || len(f.name) > 50 || strings.ContainsRune(string(f.name), 0) || len(f.content) == 0 {
				continue
			}
			stream = append(stream, frame(0x1211, att1211(f, 0))...)
			stream = append(stream, attChunk(astype, f, 0, len(f.content))...)
			stream = append(stream, frame(0x1212, att1211(f, 0))...)
			n += 2
		}
	}
	mark := srv.Len()
	cl, err := sock.Dial(srv.Addr())
	if err != nil {
		confineLast.orc = &fw.OracleFailure{Sig: "server/refuses-connection", Msg: err.Error()}
		return "scenario-failed"
	}
	_ = cl.Send(stream)
	cl.ReadFrames(n, 2*time.Second)
	cl.Close()
	_, _, saved := srv.WaitForFrom(mark, func(e sock.Event) bool { return sock.Str(e, "event") == "file-saved" && !sock.Bool(e, "probe") }, 3*time.Second)
	if !srv.Ping(2 * time.Second) {
		_, code, tail := srv.ExitInfo()
		confineLast.orc = &fw.OracleFailure{Sig: "attach-server/died", Msg: fmt.Sprintf("attachment server exited with code %d: %s", code, lastLines(tail, 6))}
		return "scenario-failed:server/died"
	}
	if !saved {
		confineLast.orc = &fw.OracleFailure{Sig: "attach/no-quit", Msg: "no end-of-session event within 3 s"}
		return "scenario-failed:no-quit"
	}
	phoneStr := strings.TrimLeft(hex.EncodeToString(phone), "0")
	if phoneStr == "" {
		phoneStr = hex.EncodeToString(phone)
	}
	allowed := attCwdRel + "/" + phoneStr + "/"
	var stored, outside []string
	for _, p := range listTree(root) {
		if strings.HasSuffix(p, "/") {
			if p == allowed || strings.HasPrefix(allowed, p) {
				continue
			}
			if !strings.HasPrefix(p, allowed) {
				outside = append(outside, p)
			}
			continue
		}
		if p == attCwdRel+"/file.log" {
			continue
		}
		if strings.HasPrefix(p, allowed) && !strings.Contains(p[len(allowed):], "/") {
			stored = append(stored, hex.EncodeToString([]byte(phoneStr+"/"+p[len(allowed):])))
		} else {
			outside = append(outside, p)
			if strings.HasPrefix(p, attCwdRel+"/") {
				stored = append(stored, hex.EncodeToString([]byte(p[len(attCwdRel)+1:])))
			} else {
				stored = append(stored, hex.EncodeToString([]byte("^/"+p)))
			}
		}
	}
	// probes above the root / absolute
	for _, f := range files {
		if strings.ContainsRune(string(f.name), 0) {
			continue
		}
		var cand string
		if strings.HasPrefix(string(f.name), "/") {
			cand = filepath.Clean(string(f.name))
		} else {
			cand = filepath.Clean(filepath.Join(cwd, phoneStr, string(f.name)))
		}
		if strings.HasPrefix(cand, root+"/") || cand == root {
			continue
		}
		if st, err := os.Lstat(cand); err == nil && !st.IsDir() && strings.Contains(cand, "verifprobe") {
			outside = append(outside, cand)
			stored = append(stored, hex.EncodeToString([]byte("^^"+cand)))
			os.Remove(cand)
		}
	}
	sort.Strings(stored)
	if len(outside) > 0 {
		confineLast.orc = &fw.OracleFailure{Sig: "confine/outside", Msg: fmt.Sprintf("created outside %s: %q", allowed, outside)}
	}
	return "stored=[" + strings.Join(stored, ",") + "]"
}

func genC19(r *fw.Rng, tier string, emit func(fw.Case)) {
	catalogue := []string{"a.jpg", "../verifprobe_x", "../../verifprobe_y", "../../../../../../../../../../var/tmp/verifprobe_abs", "/var/tmp/verifprobe_abs2",
		"sub/verifprobe_z", "./a", ".", "..", "/", "//", "a/", "a/.", "..a", "a..", "...", " ", "a b", "..\\x", "a\x00b", "\x00", "x/../../verifprobe_q", "../13800138000/x",
		"./../verifprobe_r", "a//b", strings.Repeat("n", 255), strings.Repeat("n", 250) + "/../x", "~", "-rf", "file.log", "../file.log", "../../cwd/verifprobe_s", "%2e%2e%2fx", "..%2fx", "a\nb", "ä.jpg", "\xff\xfe"}
	emitOne := func(astype int, phone []byte, names []string, upload bool) {
		var fsS []string
		seen := map[string]bool{}
		for _, n := range names {
			if seen[n] || len(n) > 255 {
				continue
			}
			seen[n] = true
			fsS = append(fsS, fw.Hex([]byte(n))+":"+fw.Hex(r.Bytes(1+r.Intn(12))))
		}
		u := "0"
		if upload {
			u = "1"
		}
		emit(fw.Case{Op: "confine", Args: []string{strconv.Itoa(astype), fw.Hex(phone), strings.Join(fsS, ";"), u}})
	}
	phones := [][]byte{{0x01, 0x38, 0x00, 0x13, 0x80, 0x00}, {0, 0, 0, 0, 0, 0}, {0, 0, 0, 0, 0, 0x07}, {0xab, 0xcd, 0xef, 0x12, 0x34, 0x56}, {0x00, 0x0a, 0, 0, 0, 0}}
	// every catalogue name alone
	for i, n := range catalogue {
		emitOne(1+i%5, phones[i%len(phones)], []string{n}, i%2 == 0)
	}
	cnt := 25
	if tier == "thorough" {
		cnt = 400
	}
	alphabet := []byte("./.\\ab\x00 ~-")
	for i := 0; i < cnt; i++ {
		var names []string
		for k := 0; k < 1+r.Intn(4); k++ {
			switch r.Intn(4) {
			case 0:
				names = append(names, catalogue[r.Intn(len(catalogue))])
			case 1: // random over a path-ish alphabet
				l := 1 + r.Intn(12)
				b := make([]byte, l)
				for j := range b {
					b[j] = alphabet[r.Intn(len(alphabet))]
				}
				names = append(names, string(b))
			case 2: // component soup
				comps := []string{"..", ".", "", "a", "verifprobe_c", "..."}
				var cs []string
				for j := 0; j < 1+r.Intn(5); j++ {
					cs = append(cs, comps[r.Intn(len(comps))])
				}
				names = append(names, strings.Join(cs, "/"))
			default:
				names = append(names, string(r.Bytes(1+r.Intn(40))))
			}
		}
		ph := phones[r.Intn(len(phones))]
		if r.Chance(40) {
			ph = r.Bytes(6)
		}
		emitOne(1+r.Intn(5), ph, names, r.Chance(50))
	}
}

var C19 = &fw.Prop{ID: "C19", Gen: genC19, Exec: execConfine,
	Oracle: func(c fw.Case) *fw.OracleFailure {
		if confineLast.key != strings.Join(c.Args, " ") {
			execConfine(c)
		}
		return confineLast.orc
	},
	Class: func(c fw.Case, res string) string {
		if res == "stored=[]" {
			return "confine:nothing-stored"
		}
		return "confine:stored"
	}}
